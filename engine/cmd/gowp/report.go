package main

// Verdicts, lock file, known findings, evidence files, VIOLATION lines.

import (
	"bufio"
	"encoding/json"
	"fmt"
	"os"
	"path/filepath"
	"sort"
	"strings"
	"time"
)

type report struct {
	eng        *Engine
	bounded    []boundedResult
	results    []*funcResult
	tier       string
	want       map[string]bool
	verbose    bool
	lockMode   string
	noReplay   bool
	noEvidence bool
	start      time.Time
	genSecs    float64
}

type finding struct {
	kind       string // finding | fixed
	property   string
	obligation string
	text       string
}

func loadFindings(path string) []finding {
	f, err := os.Open(path)
	if err != nil {
		return nil
	}
	defer f.Close()
	var out []finding
	sc := bufio.NewScanner(f)
	for sc.Scan() {
		ln := strings.TrimSpace(sc.Text())
		if ln == "" || strings.HasPrefix(ln, "#") {
			continue
		}
		var fd finding
		switch {
		case strings.HasPrefix(ln, "finding:"):
			fd.kind = "finding"
			ln = strings.TrimSpace(ln[len("finding:"):])
		case strings.HasPrefix(ln, "fixed:"):
			fd.kind = "fixed"
			ln = strings.TrimSpace(ln[len("fixed:"):])
		default:
			continue
		}
		var rest []string
		for _, w := range strings.Fields(ln) {
			switch {
			case strings.HasPrefix(w, "property=") && fd.property == "":
				fd.property = w[len("property="):]
			case strings.HasPrefix(w, "obligation=") && fd.obligation == "":
				fd.obligation = w[len("obligation="):]
			default:
				rest = append(rest, w)
			}
		}
		fd.text = strings.Join(rest, " ")
		out = append(out, fd)
	}
	return out
}

// lock file: one line per claimed obligation: "<prop> <obligation-name>"
func loadLock(path string) map[string]map[string]bool {
	out := map[string]map[string]bool{}
	f, err := os.Open(path)
	if err != nil {
		return out
	}
	defer f.Close()
	sc := bufio.NewScanner(f)
	sc.Buffer(make([]byte, 1<<20), 1<<20)
	for sc.Scan() {
		ln := strings.TrimSpace(sc.Text())
		if ln == "" || strings.HasPrefix(ln, "#") {
			continue
		}
		fs := strings.SplitN(ln, " ", 2)
		if len(fs) != 2 {
			continue
		}
		if out[fs[0]] == nil {
			out[fs[0]] = map[string]bool{}
		}
		out[fs[0]][fs[1]] = true
	}
	return out
}

type obEvidence struct {
	Name    string  `json:"name"`
	Kind    string  `json:"kind"`
	Status  string  `json:"status"`
	Solver  string  `json:"solver"`
	TimeS   float64 `json:"time_s"`
	Claimed bool    `json:"claimed"`
	Pos     string  `json:"pos,omitempty"`
	Desc    string  `json:"desc,omitempty"`
	Nodes   int     `json:"defs,omitempty"`
}

func (r *report) finish() int {
	eng := r.eng
	findings := loadFindings(filepath.Join(eng.verif, "known_findings.txt"))
	lockPath := filepath.Join(eng.verif, "contracts", "obligations.lock")
	lock := loadLock(lockPath)
	// properties to report on
	propSet := map[string]bool{}
	for _, fr := range r.results {
		for _, p := range fr.Props {
			if r.want == nil || r.want[p] {
				propSet[p] = true
			}
		}
	}
	for p := range r.want {
		propSet[p] = true
	}
	props := sortedProps(propSet)
	exit := 0
	engineErr := false
	newLock := map[string][]string{}
	for _, p := range props {
		pstart := time.Now()
		os.RemoveAll(filepath.Join(eng.verif, "replays", p))
		var obls []*Obligation
		var funcsUnder []map[string]any
		var specErrs, imprecise []string
		trusted := map[string]bool{}
		externs := map[string]bool{}
		for _, fr := range r.results {
			if !contains(fr.Props, p) {
				continue
			}
			obls = append(obls, fr.Obligations...)
			nC, nD := 0, 0
			for _, o := range fr.Obligations {
				if o.Claimed && o.Kind != "vacuity" {
					nC++
					if o.Proved() {
						nD++
					}
				}
			}
			fu := map[string]any{"function": fr.Name, "file": fr.File, "ssa_blocks": fr.Blocks, "claimed_obligations": nC, "discharged": nD}
			if fr.Trusted != "" {
				fu["trusted"] = fr.Trusted
				trusted[fr.Name+": "+fr.Trusted] = true
			}
			if len(fr.Callees) > 0 {
				fu["callees_by_contract"] = fr.Callees
			}
			if len(fr.Inlined) > 0 {
				fu["callees_inlined"] = fr.Inlined
			}
			if len(fr.Imprecise) > 0 {
				fu["abstracted"] = fr.Imprecise
			}
			funcsUnder = append(funcsUnder, fu)
			for _, e := range fr.SpecErrors {
				specErrs = append(specErrs, fr.Name+": "+e)
			}
			for _, e := range fr.Imprecise {
				imprecise = append(imprecise, fr.Name+": "+e)
			}
			for _, e := range fr.Externs {
				externs[e] = true
			}
			for _, w := range fr.Waived {
				trusted["explicit obligation not claimed — "+w] = true
			}
		}
		nClaimed, nDischarged, nUnclaimed, nUnclaimedOK := 0, 0, 0, 0
		var solverTime float64
		bySolver := map[string]int{}
		var violations []string
		var known []string
		var evObs []obEvidence
		var samples []any
		seen := map[string]bool{}
		for _, o := range obls {
			seen[o.Name] = true
			evObs = append(evObs, obEvidence{Name: o.Name, Kind: o.Kind, Status: o.Res.Status, Solver: o.Res.Solver, TimeS: round3(o.Res.Time), Claimed: o.Claimed, Pos: o.Pos, Desc: o.Desc, Nodes: o.Nodes})
			solverTime += o.Res.Time
			if o.Kind == "vacuity" {
				if o.Res.Status == "unsat" {
					fmt.Printf("ENGINE-ERROR: vacuous contract: %s (%s)\n", o.Name, o.Desc)
					engineErr = true
				}
				continue
			}
			if !o.Claimed {
				nUnclaimed++
				if o.Proved() {
					nUnclaimedOK++
				}
				continue
			}
			nClaimed++
			if o.Proved() {
				nDischarged++
				bySolver[o.Res.Solver]++
				newLock[p] = append(newLock[p], o.Name)
				if len(samples) < 3 && o.Script != "" && len(o.Script) < 6000 {
					samples = append(samples, map[string]any{"obligation": o.Name, "clause": o.Desc, "smtlib": o.Script, "verdict": o.Res.Status, "solver": o.Res.Solver})
				}
				continue
			}
			// a script every solver rejects is a defect of the generator, not a verdict on the code
			if o.Res.Status == "error" {
				fmt.Printf("ENGINE-ERROR: every solver rejected the script of %s: %s\n", o.Name, firstLines(o.Res.Output, 2))
				engineErr = true
				nClaimed--
				continue
			}
			// failing claimed obligation
			if fd := matchFinding(findings, p, o.Name); fd != nil {
				known = append(known, fmt.Sprintf("KNOWN-FINDING: property=%s obligation=%s %s", p, o.Name, fd.text))
				// a known finding is excluded from the proof count
				nClaimed--
				continue
			}
			violations = append(violations, r.reportViolation(p, o))
		}
		// lock: every locked obligation must still exist
		if r.lockMode == "check" {
			var missing []string
			for name := range lock[p] {
				if !seen[name] && lockAnchored(name) {
					missing = append(missing, name)
				}
			}
			sort.Strings(missing)
			for _, name := range missing {
				if funcFilterActive() {
					continue
				}
				violations = append(violations, r.reportStructural(p, name, "locked obligation is no longer generated (its function, loop, call site or clause has disappeared)"))
			}
		}
		for _, e := range specErrs {
			violations = append(violations, r.reportStructural(p, "spec:"+e, "contract clause no longer binds to the code: "+e))
		}
		var boundedEv []boundedResult
		for _, b := range r.bounded {
			if !contains(b.Props, p) {
				continue
			}
			boundedEv = append(boundedEv, b)
			if b.Error != "" {
				violations = append(violations, r.reportStructural(p, "bounded:"+b.Name, "bounded check could not run: "+b.Error))
			}
			for _, f := range b.Failures {
				oname := b.Name + "#bounded:" + f
				if fd := matchFinding(findings, p, sanitizeObl(oname)); fd != nil {
					known = append(known, fmt.Sprintf("KNOWN-FINDING: property=%s obligation=%s %s", p, sanitizeObl(oname), fd.text))
					continue
				}
				path := r.replayPath(p, oname)
				data, _ := json.MarshalIndent(map[string]any{"property": p, "obligation": sanitizeObl(oname), "kind": "bounded", "clause": b.Desc, "failing_case": f, "status": "bounded-check-failed on the real code"}, "", " ")
				os.WriteFile(path, data, 0o644)
				violations = append(violations, fmt.Sprintf("VIOLATION property=%s replay=%s", p, path))
			}
		}
		for _, s := range eng.structural {
			violations = append(violations, r.reportStructural(p, "bind:"+s, s))
		}
		for _, k := range known {
			fmt.Println(k)
		}
		for _, v := range violations {
			fmt.Println(v)
			exit = 1
		}
		if len(samples) == 0 {
			for _, o := range obls {
				if o.Claimed && o.Proved() && o.Kind != "vacuity" {
					samples = append(samples, map[string]any{"obligation": o.Name, "clause": o.Desc, "verdict": o.Res.Status, "solver": o.Res.Solver})
					if len(samples) >= 3 {
						break
					}
				}
			}
		}
		sort.Slice(evObs, func(i, j int) bool { return evObs[i].Name < evObs[j].Name })
		assumptions := []string{
			"float-as-real: float32/float64 are modelled as mathematical reals (no NaN, Inf, rounding, -0)",
			"machine-int-as-math: int/int64 arithmetic is unbounded (overflow not modelled); small unsigned types wrap",
			"the VC generator's own model of Go semantics over go/ssa (naive form) is trusted",
			"functions are proved partially correct unless a `decreases` obligation is listed",
		}
		for _, e := range sortedKeys(externs) {
			assumptions = append(assumptions, "assumed contract (extern, unchecked): "+e)
		}
		for _, e := range sortedKeys(trusted) {
			assumptions = append(assumptions, "trusted function: "+e)
		}
		tb := []string{"gowp VC generator (this repository, /verif/engine)", "golang.org/x/tools/go/ssa v0.29.0 (naive form)", "z3 4.8.12", "z3 5.1.0 (z3-new)", "cvc5 1.0.x", "go/types"}
		for _, e := range sortedKeys(externs) {
			tb = append(tb, "extern contract "+e)
		}
		if samples == nil {
			samples = []any{}
		}
		cov := map[string]any{
			"obligations":              nClaimed,
			"discharged":               nDischarged,
			"checker_cmd":              fmt.Sprintf("cd /verif && ./check %s %s", p, r.tier),
			"trusted_base":             tb,
			"samples":                  samples,
			"functions_under_contract": funcsUnder,
			"discharged_by_solver":     bySolver,
			"solver_time_s":            round3(solverTime),
			"unclaimed_obligations":    nUnclaimed,
			"unclaimed_discharged":     nUnclaimedOK,
			"bounded":                  boundedEv,
			"known_findings":           known,
			"abstractions":             imprecise,
			"per_obligation":           evObs,
			"load_s":                   round3(eng.loadSecs),
			"vcgen_s":                  round3(r.genSecs),
			"explanation":              "Each obligation is a verification condition generated from go/ssa of /repo's working tree for a function under contract (//@ clauses in zz_verif_contracts.go, build tag verif) and discharged by an SMT portfolio; 'discharged' counts claimed obligations proved unsat (unbounded). Unclaimed obligations are implicit safety conditions in functions not marked nopanic: attempted, reported, never counted.",
		}
		ev := map[string]any{
			"property_id": p,
			"tier":        r.tier,
			"seed":        eng.seed,
			"level":       "proof",
			"coverage":    cov,
			"assumptions": assumptions,
			"wall_s":      round3(time.Since(r.start).Seconds()),
			"violations":  len(violations),
		}
		if nClaimed == 0 || nDischarged == 0 {
			// nothing proved: make that explicit instead of a vacuous proof claim
			ev["level"] = "other"
		}
		// a property without a single claimed obligation or bounded run (not applicable: its contracts only carry a
		// known finding or serve other properties) gets no evidence file
		if !r.noEvidence && (nClaimed > 0 || len(boundedEv) > 0) && !notApplicable(eng.verif, p) {
			os.MkdirAll(filepath.Join(eng.verif, "evidence"), 0o755)
			data, _ := json.MarshalIndent(ev, "", " ")
			os.WriteFile(filepath.Join(eng.verif, "evidence", p+".json"), data, 0o644)
		}
		fmt.Printf("property %s: %d/%d claimed obligations discharged, %d known findings, %d violations, %d unclaimed (%d of them discharged) [%.1fs]\n",
			p, nDischarged, nClaimed, len(known), len(violations), nUnclaimed, nUnclaimedOK, time.Since(pstart).Seconds())
		if r.verbose {
			for _, o := range obls {
				mark := "ok  "
				if !o.Proved() {
					mark = "FAIL"
					if !o.Claimed {
						mark = "open"
					}
				}
				fmt.Printf("  %s %-70s %-8s %-7s %.2fs %s\n", mark, o.Name, o.Res.Status, o.Res.Solver, o.Res.Time, o.Pos)
			}
			for _, e := range specErrs {
				fmt.Println("  SPEC-ERROR", e)
			}
			for _, e := range imprecise {
				fmt.Println("  abstracted:", e)
			}
		}
	}
	if r.lockMode == "update" {
		merged := lock
		for p, names := range newLock {
			merged[p] = map[string]bool{}
			for _, n := range names {
				merged[p][n] = true
			}
		}
		var lines []string
		for p, m := range merged {
			for n := range m {
				lines = append(lines, p+" "+n)
			}
		}
		sort.Strings(lines)
		os.MkdirAll(filepath.Dir(lockPath), 0o755)
		os.WriteFile(lockPath, []byte("# claimed obligations (property, name); regenerated by `gowp -lock update`\n"+strings.Join(lines, "\n")+"\n"), 0o644)
	}
	if engineErr {
		return 2
	}
	return exit
}

var funcFilter bool

func funcFilterActive() bool { return funcFilter }

func contains(xs []string, x string) bool {
	for _, y := range xs {
		if y == x {
			return true
		}
	}
	return false
}

func round3(f float64) float64 { return float64(int(f*1000+0.5)) / 1000 }

func matchFinding(fs []finding, prop, obl string) *finding {
	for i := range fs {
		if fs[i].kind == "finding" && fs[i].property == prop && fs[i].obligation == obl {
			return &fs[i]
		}
	}
	return nil
}

func (r *report) replayPath(p, name string) string {
	dir := filepath.Join(r.eng.verif, "replays", p)
	os.MkdirAll(dir, 0o755)
	base := sanitize(name)
	if base != name {
		// keep distinct obligations apart even when their names differ only in punctuation
		h := uint32(2166136261)
		for i := 0; i < len(name); i++ {
			h = (h ^ uint32(name[i])) * 16777619
		}
		if len(base) > 150 {
			base = base[:150] // file names are limited to 255 bytes
		}
		base = fmt.Sprintf("%s-%08x", base, h)
	}
	if len(base) > 200 {
		base = base[:200]
	}
	return filepath.Join(dir, base+".json")
}

func (r *report) reportViolation(p string, o *Obligation) string {
	path := r.replayPath(p, o.Name)
	rp := map[string]any{
		"property":      p,
		"obligation":    o.Name,
		"kind":          o.Kind,
		"clause":        o.Desc,
		"position":      o.Pos,
		"solver":        o.Res.Solver,
		"status":        o.Res.Status,
		"solver_output": truncate(o.Res.Output, 20000),
		"smtlib":        truncate(o.Script, 200000),
	}
	confirmed := false
	if o.Res.Status == "sat" && !r.noReplay {
		rr := r.eng.replay(o)
		rp["replay"] = rr
		confirmed = rr.Confirmed
	}
	data, _ := json.MarshalIndent(rp, "", " ")
	os.WriteFile(path, data, 0o644)
	if confirmed {
		return fmt.Sprintf("VIOLATION property=%s replay=%s", p, path)
	}
	return fmt.Sprintf("VIOLATION property=%s replay=%s no-failing-input-found", p, path)
}

func (r *report) reportStructural(p, name, why string) string {
	path := r.replayPath(p, "structural-"+name)
	rp := map[string]any{"property": p, "obligation": name, "kind": "structural", "clause": why, "status": "not-generated"}
	data, _ := json.MarshalIndent(rp, "", " ")
	os.WriteFile(path, data, 0o644)
	return fmt.Sprintf("VIOLATION property=%s replay=%s no-failing-input-found", p, path)
}

func truncate(s string, n int) string {
	if len(s) > n {
		return s[:n] + "\n...[truncated]"
	}
	return s
}

func sanitizeObl(s string) string { return strings.ReplaceAll(s, " ", "_") }

// lockAnchored: only obligations that state the specification itself (postconditions,
// lemmas, ghost assertions, vacuity checks) must keep existing; obligations derived from
// the shape of the code (call preconditions, frames, implicit safety conditions, loop
// invariants) legitimately come and go with refactorings and are simply re-generated.
func lockAnchored(name string) bool {
	i := strings.LastIndex(name, "#")
	if i < 0 {
		return false
	}
	k := name[i+1:]
	switch {
	case strings.HasPrefix(k, "ensures"), strings.HasPrefix(k, "shows"), strings.HasPrefix(k, "assert-after"):
		return true
	case strings.HasPrefix(k, "call-") && strings.Contains(k, "-assert"):
		return true
	case strings.HasPrefix(k, "loop") && (strings.Contains(k, "-step") || strings.Contains(k, "-exit")):
		return true
	}
	return false
}

// notApplicable reports whether MANIFEST.json lists the property under not_applicable: the contracts that mention
// such a property (a known finding, clauses shared with other properties) are still checked, but no evidence file
// claims anything for it.
func notApplicable(verif, prop string) bool {
	data, err := os.ReadFile(filepath.Join(verif, "MANIFEST.json"))
	if err != nil {
		return false
	}
	var m struct {
		NA []struct {
			ID string `json:"property_id"`
		} `json:"not_applicable"`
	}
	if json.Unmarshal(data, &m) != nil {
		return false
	}
	for _, e := range m.NA {
		if e.ID == prop {
			return true
		}
	}
	return false
}
