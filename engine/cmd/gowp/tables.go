package main

import (
	"fmt"
	"go/types"
	"os"
	"sort"

	"golang.org/x/tools/go/ssa"
	"golang.org/x/tools/go/ssa/ssautil"
)

// Constant lookup tables. A package-level map (or struct of maps) that the package's init
// function builds from a composite literal with constant keys and values, and that no
// function of the loaded program writes afterwards, is read as the table its literal
// denotes: m[k] is a case analysis over the literal's keys. The entries are extracted from
// the SSA of init on every run (nothing is transcribed by hand).

type tableEntry struct {
	key, val *ssa.Const
}

type constTable struct {
	entries []tableEntry
}

type tableKey struct {
	g     *ssa.Global
	field int // -1: the global itself is the map
}

func (eng *Engine) findConstTables() {
	eng.tables = map[tableKey]*constTable{}
	cands := map[tableKey]*constTable{}
	bad0 := map[tableKey]bool{}
	for _, p := range eng.prog.AllPackages() {
		init := p.Func("init")
		if init == nil || len(init.Blocks) == 0 {
			continue
		}
		// single Store per Alloc / FieldAddr in init
		stores := map[ssa.Value][]*ssa.Store{}
		for _, b := range init.Blocks {
			for _, in := range b.Instrs {
				if s, ok := in.(*ssa.Store); ok {
					stores[s.Addr] = append(stores[s.Addr], s)
				}
			}
		}
		var resolveMap func(v ssa.Value) *constTable
		resolveMap = func(v ssa.Value) *constTable {
			switch x := v.(type) {
			case *ssa.MakeMap:
				t := &constTable{}
				for _, r := range *x.Referrers() {
					switch u := r.(type) {
					case *ssa.MapUpdate:
						k, ok1 := u.Key.(*ssa.Const)
						val, ok2 := u.Value.(*ssa.Const)
						if u.Map != x || !ok1 || !ok2 || k.Value == nil || val.Value == nil {
							return nil
						}
						t.entries = append(t.entries, tableEntry{k, val})
					case *ssa.Store:
						if u.Val != x {
							return nil
						}
					case *ssa.DebugRef:
					default:
						return nil
					}
				}
				return t
			case *ssa.UnOp:
				a, ok := x.X.(*ssa.Alloc)
				if !ok || len(stores[a]) != 1 {
					return nil
				}
				return resolveMap(stores[a][0].Val)
			}
			return nil
		}
		for _, b := range init.Blocks {
			for _, in := range b.Instrs {
				s, ok := in.(*ssa.Store)
				if !ok {
					continue
				}
				switch ad := s.Addr.(type) {
				case *ssa.Global:
					if len(stores[ad]) != 1 {
						continue
					}
					et := ad.Type().(*types.Pointer).Elem()
					switch et.Underlying().(type) {
					case *types.Map:
						if t := resolveMap(s.Val); t != nil {
							cands[tableKey{ad, -1}] = t
						}
					case *types.Struct:
						// var g = struct{...}{...} built in a local and copied
						ld, ok := s.Val.(*ssa.UnOp)
						if !ok {
							continue
						}
						a, ok := ld.X.(*ssa.Alloc)
						if !ok {
							continue
						}
						for _, r := range *a.Referrers() {
							fa, ok := r.(*ssa.FieldAddr)
							if !ok || len(stores[fa]) != 1 {
								continue
							}
							if _, isMap := fa.Type().(*types.Pointer).Elem().Underlying().(*types.Map); !isMap {
								continue
							}
							if t := resolveMap(stores[fa][0].Val); t != nil {
								cands[tableKey{ad, fa.Field}] = t
							}
						}
					}
				case *ssa.FieldAddr:
					// var g = struct{...}{...} initialised in place, field by field
					g, ok := ad.X.(*ssa.Global)
					if !ok || len(stores[ad]) != 1 {
						continue
					}
					if _, isMap := ad.Type().(*types.Pointer).Elem().Underlying().(*types.Map); !isMap {
						continue
					}
					if _, dup := cands[tableKey{g, ad.Field}]; dup {
						// two FieldAddr instructions for the same field: not a plain literal
						delete(cands, tableKey{g, ad.Field})
						bad0[tableKey{g, ad.Field}] = true
						continue
					}
					if bad0[tableKey{g, ad.Field}] {
						continue
					}
					if t := resolveMap(s.Val); t != nil {
						cands[tableKey{g, ad.Field}] = t
					}
				}
			}
		}
	}
	if len(cands) == 0 {
		return
	}
	// disqualify tables that anything outside init may write, or whose map value escapes
	bad := map[*ssa.Global]bool{}
	rootGlobal := func(v ssa.Value) *ssa.Global {
		for {
			switch x := v.(type) {
			case *ssa.Global:
				return x
			case *ssa.FieldAddr:
				v = x.X
			case *ssa.IndexAddr:
				v = x.X
			default:
				return nil
			}
		}
	}
	for fn := range ssautil.AllFunctions(eng.prog) {
		isInit := fn.Name() == "init" && fn.Signature.Recv() == nil && fn.Parent() == nil
		for _, b := range fn.Blocks {
			for _, in := range b.Instrs {
				switch x := in.(type) {
				case *ssa.Store:
					if g := rootGlobal(x.Addr); g != nil && !(isInit && fn.Pkg == g.Pkg) {
						bad[g] = true
					}
					// storing the address of a table global somewhere
					if g := rootGlobal(x.Val); g != nil {
						bad[g] = true
					}
				case *ssa.UnOp:
					g := rootGlobal(x.X)
					if g == nil || x.Referrers() == nil {
						continue
					}
					if _, isMap := x.Type().Underlying().(*types.Map); !isMap {
						if _, isStruct := x.Type().Underlying().(*types.Struct); isStruct && !(isInit && fn.Pkg == g.Pkg) {
							// a copy of the whole struct: its maps escape our view
							for _, r := range *x.Referrers() {
								if _, ok := r.(*ssa.DebugRef); !ok {
									bad[g] = true
								}
							}
						}
						continue
					}
					for _, r := range *x.Referrers() {
						switch u := r.(type) {
						case *ssa.Lookup, *ssa.Range, *ssa.DebugRef:
						case *ssa.Call:
							if bi, ok := u.Call.Value.(*ssa.Builtin); !ok || bi.Name() != "len" {
								bad[g] = true
							}
						case *ssa.Store:
							if !(isInit && fn.Pkg == g.Pkg) {
								bad[g] = true
							}
						default:
							bad[g] = true
						}
					}
				case ssa.CallInstruction:
					for _, a := range x.Common().Args {
						if g := rootGlobal(a); g != nil {
							bad[g] = true
						}
					}
				}
			}
		}
	}
	if os.Getenv("GOWP_DEBUG") != "" {
		for k, t := range cands {
			fmt.Fprintf(os.Stderr, "table candidate %s field %d: %d entries, disqualified=%v\n", k.g, k.field, len(t.entries), bad[k.g])
		}
	}
	for k, t := range cands {
		if !bad[k.g] {
			sort.SliceStable(t.entries, func(i, j int) bool {
				return t.entries[i].key.Value.ExactString() < t.entries[j].key.Value.ExactString()
			})
			eng.tables[k] = t
		}
	}
}

// tableOf recognises `*G` or `*(&G.field)` for a constant table.
func (eng *Engine) tableOf(v ssa.Value) (*constTable, string) {
	ld, ok := v.(*ssa.UnOp)
	if !ok {
		return nil, ""
	}
	switch a := ld.X.(type) {
	case *ssa.Global:
		if t := eng.tables[tableKey{a, -1}]; t != nil {
			return t, a.String()
		}
	case *ssa.FieldAddr:
		if g, ok := a.X.(*ssa.Global); ok {
			if t := eng.tables[tableKey{g, a.Field}]; t != nil {
				return t, g.String()
			}
		}
	}
	return nil, ""
}
