package main

import (
	"flag"
	"fmt"
	"os"
	"path/filepath"
	"runtime"
	"sort"
	"strings"
	"time"
)

func main() {
	var (
		repo     = flag.String("repo", "/repo", "repository under verification")
		verif    = flag.String("verif", "/verif", "verification directory")
		props    = flag.String("props", "", "comma-separated property ids (empty = all)")
		tier     = flag.String("tier", "quick", "quick | thorough")
		funcs    = flag.String("func", "", "only functions whose display name contains this substring")
		verbose  = flag.Bool("v", false, "verbose")
		dumpDir  = flag.String("dump", "", "write every SMT script to this directory")
		lockMode = flag.String("lock", "check", "check | update | off")
		seed     = flag.Int("seed", 0, "random seed (VERIF_SEED)")
		timeout  = flag.Int("timeout", 0, "per-obligation solver timeout in seconds")
		noReplay = flag.Bool("noreplay", false, "skip replay of counterexamples")
		replayF  = flag.String("replay", "", "re-run a replay file")
		noEvid   = flag.Bool("noevidence", false, "do not write evidence or replay files (scratch runs of the must-fail corpus)")
	)
	flag.Parse()
	// type aliases (type Box = bo.Box) are resolved to their targets by go/types
	os.Setenv("GODEBUG", "gotypesalias=0")
	if s := os.Getenv("VERIF_SEED"); s != "" && *seed == 0 {
		fmt.Sscanf(s, "%d", seed)
	}
	if t := os.Getenv("VERIF_TIER"); t != "" && *tier == "" {
		*tier = t
	}
	if *replayF != "" {
		os.Exit(replayFile(*replayF, *repo))
	}
	if *timeout == 0 {
		*timeout = 10
		if *tier == "thorough" {
			*timeout = 60
		}
	}
	start := time.Now()
	tmp, err := os.MkdirTemp("", "gowp")
	if err != nil {
		fmt.Fprintln(os.Stderr, err)
		os.Exit(2)
	}
	defer os.RemoveAll(tmp)
	initSolverPool(runtime.NumCPU())
	eng := &Engine{repo: *repo, verif: *verif, sorts: newSorts(), tmpdir: tmp, seed: *seed, timeout: *timeout, skipUnclaimed: *tier != "thorough" && !*verbose}
	if err := eng.load(); err != nil {
		fmt.Fprintln(os.Stderr, "ENGINE-ERROR:", err)
		os.RemoveAll(tmp)
		os.Exit(2)
	}
	var want map[string]bool
	if *props != "" {
		want = map[string]bool{}
		for _, p := range strings.Split(*props, ",") {
			want[strings.TrimSpace(p)] = true
		}
	}
	serves := func(ps []string) bool {
		if want == nil {
			return true
		}
		for _, p := range ps {
			if want[p] {
				return true
			}
		}
		return false
	}
	funcFilter = *funcs != ""
	var results []*funcResult
	for _, tg := range eng.targets {
		if !serves(tg.c.Props) {
			continue
		}
		if *funcs != "" && !strings.Contains(eng.funcDisplayName(tg.fn), *funcs) {
			continue
		}
		results = append(results, eng.verifyFunction(tg))
	}
	for _, lt := range eng.lemmas {
		if !serves(lt.c.Props) {
			continue
		}
		if *funcs != "" && !strings.Contains(lt.c.Ref, *funcs) {
			continue
		}
		results = append(results, eng.verifyLemma(lt))
	}
	var bounded []boundedResult
	for _, bt := range eng.bounded {
		if !serves(bt.c.Props) || *funcs != "" && !strings.Contains(bt.c.Ref, *funcs) {
			continue
		}
		bounded = append(bounded, eng.runBounded(bt))
	}
	var all []*Obligation
	for _, r := range results {
		all = append(all, r.Obligations...)
	}
	genSecs := time.Since(start).Seconds() - eng.loadSecs
	eng.discharge(all)
	if *dumpDir != "" {
		os.MkdirAll(*dumpDir, 0o755)
		for _, o := range all {
			if o.Script != "" {
				os.WriteFile(filepath.Join(*dumpDir, sanitize(o.Name)+".smt2"), []byte(o.Script), 0o644)
			}
		}
	}
	rep := &report{eng: eng, results: results, bounded: bounded, tier: *tier, want: want, verbose: *verbose, lockMode: *lockMode,
		noReplay: *noReplay || *noEvid, noEvidence: *noEvid, start: start, genSecs: genSecs}
	code := rep.finish()
	os.RemoveAll(tmp)
	os.Exit(code)
}

func sortedProps(m map[string]bool) []string {
	var out []string
	for k := range m {
		out = append(out, k)
	}
	sort.Strings(out)
	return out
}
