package main

// SMT layer: named definitions with dependency slicing, prelude, solver portfolio.

import (
	"bytes"
	"context"
	"fmt"
	"os"
	"os/exec"
	"path/filepath"
	"sort"
	"strings"
	"sync"
	"time"
)

// Def is one named SMT definition: either a declared constant or a defined one.
type Def struct {
	Name string
	Sort string
	Body string // empty => declare-const
	Args string // for declare-fun / define-fun with params: "((x Int))"; "" for constants
	Raw  string // raw command (axiom assert), emitted verbatim when any dep referenced
	deps []string
	idx  int
	// axioms attached to a declared symbol: asserted in every query that uses it
	axioms []string
	// opaque definitions are emitted as declare-const + defining equation, so that the name
	// stays an uninterpreted constant usable inside E-matching patterns
	opaque string
}

// Axiom attaches a global fact to a declared symbol.
func (d *Defs) Axiom(name, formula string) {
	df := d.byName[name]
	if df == nil {
		return
	}
	df.axioms = append(df.axioms, formula)
	df.deps = append(df.deps, d.scanDeps(formula)...)
}

// Defs is an ordered list of definitions (the passified program of one function).
type Defs struct {
	list   []*Def
	byName map[string]*Def
	ctr    int
	inline int // >0: under a quantifier binder: definitions become let-bindings of that binder
	lets   [][]letBinding
}

type letBinding struct{ name, body string }

// PushBinder / PopBinder bracket the evaluation of a quantifier body: definitions made in
// between are local `let`s (they may mention the bound variable). PopBinder wraps body.
func (d *Defs) PushBinder() {
	d.inline++
	d.lets = append(d.lets, nil)
}

func (d *Defs) PopBinder(body string) string {
	d.inline--
	ls := d.lets[len(d.lets)-1]
	d.lets = d.lets[:len(d.lets)-1]
	for i := len(ls) - 1; i >= 0; i-- {
		body = "(let ((" + ls[i].name + " " + ls[i].body + ")) " + body + ")"
	}
	return body
}

// expandLets substitutes the let-bound names of the open binders in a (small) term.
func (d *Defs) expandLets(t string) string {
	for k := len(d.lets) - 1; k >= 0; k-- {
		ls := d.lets[k]
		for i := len(ls) - 1; i >= 0; i-- {
			if strings.Contains(t, ls[i].name) {
				t = replaceSym(t, ls[i].name, ls[i].body)
			}
		}
	}
	return t
}

func replaceSym(t, name, body string) string {
	var b strings.Builder
	i := 0
	for i < len(t) {
		j := strings.Index(t[i:], name)
		if j < 0 {
			b.WriteString(t[i:])
			break
		}
		j += i
		end := j + len(name)
		okL := j == 0 || !isSymChar(t[j-1])
		okR := end >= len(t) || !isSymChar(t[end])
		b.WriteString(t[i:j])
		if okL && okR {
			b.WriteString(body)
		} else {
			b.WriteString(name)
		}
		i = end
	}
	return b.String()
}

func newDefs() *Defs { return &Defs{byName: map[string]*Def{}} }

func sanitize(s string) string {
	var b strings.Builder
	for _, r := range s {
		switch {
		case r >= 'a' && r <= 'z', r >= 'A' && r <= 'Z', r >= '0' && r <= '9', r == '_', r == '.':
			b.WriteRune(r)
		default:
			b.WriteByte('_')
		}
	}
	return b.String()
}

func (d *Defs) fresh(prefix string) string {
	d.ctr++
	return fmt.Sprintf("%s$%d", sanitize(prefix), d.ctr)
}

// Declare introduces an unconstrained constant.
func (d *Defs) Declare(prefix, sort string) string {
	n := d.fresh(prefix)
	df := &Def{Name: n, Sort: sort, idx: len(d.list)}
	d.list = append(d.list, df)
	d.byName[n] = df
	return n
}

// Define introduces name = body.
func (d *Defs) Define(prefix, sort, body string) string {
	// do not name atoms
	if isAtom(body) {
		return body
	}
	if d.inline > 0 {
		if len(body) < 40 || len(d.lets) == 0 {
			return body
		}
		d.ctr++
		n := fmt.Sprintf("l$%d", d.ctr)
		d.lets[len(d.lets)-1] = append(d.lets[len(d.lets)-1], letBinding{n, body})
		return n
	}
	n := d.fresh(prefix)
	df := &Def{Name: n, Sort: sort, Body: body, idx: len(d.list)}
	df.deps = d.scanDeps(body)
	if sort == "Slice" || sort == "Str" {
		df.Body = ""
		df.opaque = body
		df.axioms = []string{"(= " + n + " " + body + ")"}
	}
	d.list = append(d.list, df)
	d.byName[n] = df
	return n
}

// DefineGlobal names a closed term at top level even while a binder is open.
func (d *Defs) DefineGlobal(prefix, sort, body string) string {
	save := d.inline
	d.inline = 0
	n := d.Define(prefix, sort, body)
	d.inline = save
	return n
}

func isAtom(s string) bool {
	if s == "" {
		return false
	}
	return !strings.ContainsAny(s, " ()")
}

func isSymChar(c byte) bool {
	return c >= 'a' && c <= 'z' || c >= 'A' && c <= 'Z' || c >= '0' && c <= '9' || c == '_' || c == '.' || c == '$' || c == '!' || c == '@'
}

func (d *Defs) scanDeps(body string) []string {
	var out []string
	seen := map[string]bool{}
	i := 0
	for i < len(body) {
		if isSymChar(body[i]) {
			j := i
			hasDollar := false
			for j < len(body) && isSymChar(body[j]) {
				if body[j] == '$' {
					hasDollar = true
				}
				j++
			}
			if hasDollar {
				tok := body[i:j]
				if !seen[tok] {
					if _, ok := d.byName[tok]; ok {
						seen[tok] = true
						out = append(out, tok)
					}
				}
			}
			i = j
		} else {
			i++
		}
	}
	return out
}

// Slice returns the SMT commands for all definitions the given terms depend on.
func (d *Defs) Slice(terms ...string) (string, int) {
	need := map[string]bool{}
	var stack []string
	for _, t := range terms {
		stack = append(stack, d.scanDeps(t)...)
	}
	for len(stack) > 0 {
		n := stack[len(stack)-1]
		stack = stack[:len(stack)-1]
		if need[n] {
			continue
		}
		need[n] = true
		stack = append(stack, d.byName[n].deps...)
	}
	idxs := make([]int, 0, len(need))
	for n := range need {
		idxs = append(idxs, d.byName[n].idx)
	}
	sort.Ints(idxs)
	var b strings.Builder
	var axs []string
	for _, i := range idxs {
		df := d.list[i]
		if df.Body == "" {
			fmt.Fprintf(&b, "(declare-const %s %s)\n", df.Name, df.Sort)
		} else {
			fmt.Fprintf(&b, "(define-fun %s () %s %s)\n", df.Name, df.Sort, df.Body)
		}
		axs = append(axs, df.axioms...)
	}
	for _, a := range axs {
		fmt.Fprintf(&b, "(assert %s)\n", a)
	}
	return b.String(), len(idxs)
}

// ---------------------------------------------------------------------------
// term helpers

func and(ts ...string) string {
	var xs []string
	for _, t := range ts {
		if t == "true" || t == "" {
			continue
		}
		if t == "false" {
			return "false"
		}
		xs = append(xs, t)
	}
	switch len(xs) {
	case 0:
		return "true"
	case 1:
		return xs[0]
	}
	return "(and " + strings.Join(xs, " ") + ")"
}

func or(ts ...string) string {
	var xs []string
	for _, t := range ts {
		if t == "false" || t == "" {
			continue
		}
		if t == "true" {
			return "true"
		}
		xs = append(xs, t)
	}
	switch len(xs) {
	case 0:
		return "false"
	case 1:
		return xs[0]
	}
	return "(or " + strings.Join(xs, " ") + ")"
}

func not(t string) string {
	switch t {
	case "true":
		return "false"
	case "false":
		return "true"
	}
	if strings.HasPrefix(t, "(not ") && strings.HasSuffix(t, ")") && balanced(t[5:len(t)-1]) {
		return t[5 : len(t)-1]
	}
	return "(not " + t + ")"
}

func balanced(s string) bool {
	d := 0
	for i := 0; i < len(s); i++ {
		switch s[i] {
		case '(':
			d++
		case ')':
			d--
			if d < 0 {
				return false
			}
		case ' ':
			if d == 0 {
				return false
			}
		}
	}
	return d == 0
}

func implies(a, b string) string {
	if a == "true" {
		return b
	}
	if b == "true" || a == "false" {
		return "true"
	}
	return "(=> " + a + " " + b + ")"
}

func ite(c, a, b string) string {
	if c == "true" {
		return a
	}
	if c == "false" {
		return b
	}
	if a == b {
		return a
	}
	return "(ite " + c + " " + a + " " + b + ")"
}

func eq(a, b string) string {
	if a == b {
		return "true"
	}
	return "(= " + a + " " + b + ")"
}

func app(f string, args ...string) string {
	return "(" + f + " " + strings.Join(args, " ") + ")"
}

func intLit(n int64) string {
	if n < 0 {
		return fmt.Sprintf("(- %d)", -n)
	}
	return fmt.Sprintf("%d", n)
}

// ---------------------------------------------------------------------------
// solver portfolio

type SolverResult struct {
	Status string // unsat | sat | unknown | timeout | error
	Solver string
	Time   float64
	Output string // raw output (model when sat)
}

type solverSpec struct {
	name string
	args func(file string, timeoutS int, seed int) []string
	// tactic, when set, replaces (check-sat) in the script
	tactic string
	// only used when the script mentions Real arithmetic
	realsOnly bool
}

var solvers = []solverSpec{
	{name: "z3-new", args: func(f string, t, seed int) []string {
		return []string{"z3-new", fmt.Sprintf("-T:%d", t), fmt.Sprintf("smt.random_seed=%d", seed), f}
	}},
	{name: "z3", args: func(f string, t, seed int) []string {
		return []string{"z3", fmt.Sprintf("-T:%d", t), fmt.Sprintf("smt.random_seed=%d", seed), f}
	}},
	{name: "cvc5", args: func(f string, t, seed int) []string {
		return []string{"cvc5", fmt.Sprintf("--tlimit=%d", t*1000), fmt.Sprintf("--seed=%d", seed), "--produce-models", f}
	}},
	{name: "z3-nlsat", args: func(f string, t, seed int) []string {
		return []string{"z3", fmt.Sprintf("-T:%d", t), f}
	}, tactic: "(check-sat-using (then simplify solve-eqs elim-term-ite simplify qfnra-nlsat))", realsOnly: true},
}

var solverSem chan struct{}

func initSolverPool(n int) { solverSem = make(chan struct{}, n) }

// runPortfolio races the solvers on the script; first definite (unsat, or sat
// with a model) answer wins.
func runPortfolio(script string, tmpdir, tag string, timeoutS int, seed int) SolverResult {
	file := filepath.Join(tmpdir, sanitize(tag)+".smt2")
	if err := os.WriteFile(file, []byte(script), 0o644); err != nil {
		return SolverResult{Status: "error", Output: err.Error()}
	}
	ctx, cancel := context.WithCancel(context.Background())
	defer cancel()
	resCh := make(chan SolverResult, len(solvers))
	var wg sync.WaitGroup
	hasReal := strings.Contains(script, " Real")
	nrun := 0
	for _, s := range solvers {
		if s.realsOnly && !hasReal {
			continue
		}
		nrun++
		wg.Add(1)
		go func(s solverSpec) {
			file := file
			if s.tactic != "" {
				file = filepath.Join(tmpdir, sanitize(tag)+"."+s.name+".smt2")
				os.WriteFile(file, []byte(strings.Replace(script, "(check-sat)", s.tactic, 1)), 0o644)
			}
			defer wg.Done()
			solverSem <- struct{}{}
			defer func() { <-solverSem }()
			if ctx.Err() != nil {
				resCh <- SolverResult{Status: "cancelled", Solver: s.name}
				return
			}
			argv := s.args(file, timeoutS, seed)
			start := time.Now()
			cctx, ccancel := context.WithTimeout(ctx, time.Duration(timeoutS+3)*time.Second)
			defer ccancel()
			cmd := exec.CommandContext(cctx, argv[0], argv[1:]...)
			var out bytes.Buffer
			cmd.Stdout = &out
			cmd.Stderr = &out
			_ = cmd.Run()
			el := time.Since(start).Seconds()
			txt := out.String()
			first := ""
			for _, ln := range strings.Split(txt, "\n") {
				ln = strings.TrimSpace(ln)
				if ln == "" || strings.HasPrefix(ln, "WARNING") {
					continue
				}
				first = ln
				break
			}
			st := "unknown"
			switch {
			case first == "unsat":
				st = "unsat"
			case first == "sat":
				st = "sat"
			case first == "timeout" || strings.Contains(first, "interrupted") || cctx.Err() != nil:
				st = "timeout"
			case first == "unknown":
				st = "unknown"
			case strings.HasPrefix(first, "(error"):
				st = "error"
			}
			resCh <- SolverResult{Status: st, Solver: s.name, Time: el, Output: txt}
		}(s)
	}
	go func() { wg.Wait(); close(resCh) }()
	var best SolverResult
	best.Status = "unknown"
	var errs []string
	for r := range resCh {
		switch r.Status {
		case "unsat", "sat":
			cancel()
			return r
		case "error":
			errs = append(errs, r.Solver+": "+firstLines(r.Output, 3))
			if best.Status == "unknown" && best.Solver == "" {
				best = r
			}
		case "timeout":
			if best.Status != "timeout" {
				best = r
			}
		case "unknown":
			if best.Solver == "" || best.Status == "error" {
				best = r
			}
		}
	}
	if best.Status == "error" || len(errs) == nrun {
		best.Status = "error"
		best.Output = strings.Join(errs, "\n")
	}
	return best
}

func firstLines(s string, n int) string {
	lines := strings.Split(s, "\n")
	if len(lines) > n {
		lines = lines[:n]
	}
	return strings.Join(lines, "\n")
}

// ---------------------------------------------------------------------------
// syntactic simplification through named definitions (select/store, ctor/selector)

// splitTop splits "(f a (g b) c)" into ["f","a","(g b)","c"]; atoms give [atom].
func splitTop(s string) []string {
	s = strings.TrimSpace(s)
	if len(s) < 2 || s[0] != '(' || s[len(s)-1] != ')' {
		return []string{s}
	}
	s = s[1 : len(s)-1]
	var out []string
	depth, start := 0, -1
	for i := 0; i < len(s); i++ {
		c := s[i]
		switch {
		case c == '(':
			if depth == 0 && start < 0 {
				start = i
			}
			depth++
		case c == ')':
			depth--
			if depth == 0 && start >= 0 {
				out = append(out, s[start:i+1])
				start = -1
			}
		case c == ' ' || c == '\n' || c == '\t':
			if depth == 0 && start >= 0 {
				out = append(out, s[start:i])
				start = -1
			}
		default:
			if depth == 0 && start < 0 {
				start = i
			}
		}
	}
	if start >= 0 {
		out = append(out, s[start:])
	}
	return out
}

func (d *Defs) resolve(t string) string {
	for i := 0; i < 8; i++ {
		df, ok := d.byName[t]
		if !ok {
			return t
		}
		if df.Body != "" {
			t = df.Body
		} else if df.opaque != "" {
			t = df.opaque
		} else {
			return t
		}
	}
	return t
}

func isNumLit(s string) bool {
	if s == "" {
		return false
	}
	for i := 0; i < len(s); i++ {
		if s[i] < '0' || s[i] > '9' {
			return false
		}
	}
	return true
}

// Select builds (select arr idx), simplifying through stores with syntactically
// equal (or distinct literal) indices, ites and constant arrays.
func (d *Defs) Select(arr, idx string) string {
	return d.selectDepth(arr, idx, 0)
}

func (d *Defs) selectDepth(arr, idx string, depth int) string {
	if depth > 40 {
		return "(select " + arr + " " + idx + ")"
	}
	b := d.resolve(arr)
	parts := splitTop(b)
	switch {
	case len(parts) == 4 && parts[0] == "store":
		if parts[2] == idx {
			return parts[3]
		}
		if isNumLit(parts[2]) && isNumLit(idx) {
			return d.selectDepth(parts[1], idx, depth+1)
		}
	case len(parts) == 4 && parts[0] == "ite":
		a := d.selectDepth(parts[2], idx, depth+1)
		c := d.selectDepth(parts[3], idx, depth+1)
		return ite(parts[1], a, c)
	case len(parts) == 2 && strings.HasPrefix(parts[0], "(as const"):
		return parts[1]
	}
	return "(select " + arr + " " + idx + ")"
}

// Field builds (sel v) where sel is the k-th selector of constructor ctor.
func (d *Defs) Field(sel, ctor string, k int, v string) string {
	return d.fieldDepth(sel, ctor, k, v, 0)
}

func (d *Defs) fieldDepth(sel, ctor string, k int, v string, depth int) string {
	if depth > 40 {
		return "(" + sel + " " + v + ")"
	}
	b := d.resolve(v)
	parts := splitTop(b)
	switch {
	case len(parts) > k+1 && parts[0] == ctor:
		return parts[k+1]
	case len(parts) == 4 && parts[0] == "ite":
		a := d.fieldDepth(sel, ctor, k, parts[2], depth+1)
		c := d.fieldDepth(sel, ctor, k, parts[3], depth+1)
		return ite(parts[1], a, c)
	}
	return "(" + sel + " " + v + ")"
}
