package main

import (
	"fmt"
	"strings"
)

// The spec function sum(s, lo, hi) is an uninterpreted function sum.<T>(H, s, lo, hi) of the
// element heap, the slice and the bounds. Its theory is supplied by instantiation, for the
// ground occurrences of a script (and their one-step unfoldings), never by quantified axioms:
//
//	empty:     lo >= hi  ==>  sum = 0
//	last:      lo <  hi  ==>  sum(H,s,lo,hi) = sum(H,s,lo,hi-1) + s[hi-1]
//	first:     lo <  hi  ==>  sum(H,s,lo,hi) = s[lo] + sum(H,s,lo+1,hi)
//	same-elts: for two occurrences with equal bounds whose elements agree on [lo,hi)
//	           (possibly in different heaps or slices) the sums are equal
//
// These are facts of the mathematical sum; the instantiation only decides which of them the
// solver gets to see.

type sumTerm struct {
	fn, h, s, lo, hi string
}

func (t sumTerm) text() string {
	return "(" + t.fn + " " + t.h + " " + t.s + " " + t.lo + " " + t.hi + ")"
}

func (t sumTerm) elem(k string) string {
	return fmt.Sprintf("(select (select %s (sl.base %s)) (sl.ix %s %s))", t.h, t.s, t.s, k)
}

func sumAxioms(script string) string {
	if !strings.Contains(script, "(sum.") {
		return ""
	}
	seen := map[string]bool{}
	var occ []sumTerm
	from := 0
	for {
		i := strings.Index(script[from:], "(sum.")
		if i < 0 {
			break
		}
		start := from + i
		from = start + 5
		// function name
		j := start + 1
		for j < len(script) && script[j] != ' ' && script[j] != ')' {
			j++
		}
		if j >= len(script) || script[j] != ' ' {
			continue
		}
		fn := script[start+1 : j]
		var args []string
		p := j
		okk := true
		for k := 0; k < 4; k++ {
			if p >= len(script) || script[p] != ' ' {
				okk = false
				break
			}
			p++
			e := skipSexp(script, p)
			if e < 0 {
				okk = false
				break
			}
			args = append(args, script[p:e])
			p = e
		}
		if !okk || p >= len(script) || script[p] != ')' {
			continue
		}
		t := sumTerm{fn, args[0], args[1], args[2], args[3]}
		txt := t.text()
		if strings.Contains(txt, "q.") || letNameRe.MatchString(txt) || strings.Contains(txt, "(declare-fun") {
			continue // under a binder: not a ground term
		}
		if !seen[txt] {
			seen[txt] = true
			occ = append(occ, t)
		}
	}
	if len(occ) == 0 {
		return ""
	}
	if len(occ) > 24 {
		occ = occ[:24]
	}
	var b strings.Builder
	all := append([]sumTerm(nil), occ...)
	add := func(t sumTerm) {
		if !seen[t.text()] {
			seen[t.text()] = true
			all = append(all, t)
		}
	}
	zero := "0"
	for _, t := range occ {
		if strings.HasSuffix(t.fn, ".Real") {
			zero = "0.0"
		} else {
			zero = "0"
		}
		hiM := sumTerm{t.fn, t.h, t.s, t.lo, "(- " + t.hi + " 1)"}
		loP := sumTerm{t.fn, t.h, t.s, "(+ " + t.lo + " 1)", t.hi}
		fmt.Fprintf(&b, "(assert (=> (>= %s %s) (= %s %s)))\n", t.lo, t.hi, t.text(), zero)
		fmt.Fprintf(&b, "(assert (=> (< %s %s) (= %s (+ %s %s))))\n", t.lo, t.hi, t.text(), hiM.text(), t.elem("(- "+t.hi+" 1)"))
		fmt.Fprintf(&b, "(assert (=> (< %s %s) (= %s (+ %s %s))))\n", t.lo, t.hi, t.text(), t.elem(t.lo), loP.text())
		fmt.Fprintf(&b, "(assert (=> (>= %s %s) (= %s %s)))\n", hiM.lo, hiM.hi, hiM.text(), zero)
		fmt.Fprintf(&b, "(assert (=> (>= %s %s) (= %s %s)))\n", loP.lo, loP.hi, loP.text(), zero)
		add(hiM)
		add(loP)
	}
	// same elements, same sum
	pairs := 0
	for i := 0; i < len(all) && pairs < 600; i++ {
		for j := i + 1; j < len(all) && pairs < 600; j++ {
			a, c := all[i], all[j]
			if a.fn != c.fn || (a.h == c.h && a.s == c.s) {
				continue // same sequence: equal bounds give equal sums by congruence
			}
			if i >= len(occ) && j >= len(occ) {
				continue // two one-step unfoldings: not needed to connect occurrences
			}
			pairs++
			fmt.Fprintf(&b, "(assert (=> (and (= %s %s) (= %s %s) (forall ((sum.j Int)) (=> (and (<= %s sum.j) (< sum.j %s)) (= %s %s)))) (= %s %s)))\n",
				a.lo, c.lo, a.hi, c.hi, a.lo, a.hi, a.elem("sum.j"), c.elem("sum.j"), a.text(), c.text())
		}
	}
	return b.String()
}
