package main

// Contract files: //@ comment blocks in /repo/<pkg>/zz_verif_contracts.go (build tag
// verif) and in /verif/contracts/extern.spec (assumed contracts on code outside /repo).

import (
	"fmt"
	"go/ast"
	"go/parser"
	"go/token"
	"os"
	"regexp"
	"strconv"
	"strings"
)

type Clause struct {
	Label string
	Text  string
	Expr  ast.Expr
	File  string
	Line  int
}

type LetSpec struct {
	Name string
	Expr ast.Expr
}

type LoopSpec struct {
	Invariants []Clause
	Decreases  []Clause
	Steps      []Clause // relate the state at the end of an iteration to the state at its start (old)
	Exits      []Clause // hold whenever the loop is left through its condition or a break
}

// RetSpec is a postcondition of one return statement (k-th in source order): it may
// name the locals as they are at that return.
type RetSpec struct {
	K      int
	Assert Clause
}

type CallSpec struct {
	Callee string
	K      int // 1-based ordinal of static call to Callee in the function; 0 = every call
	Assert Clause
}

type AfterSpec struct {
	Var    string
	K      int
	Assert Clause
}

type Contract struct {
	Ref           string // function reference as written: Name | (T).M | (*T).M | pkg/path.Name for extern
	Extern        bool
	Props         []string
	Requires      []Clause
	Ensures       []Clause
	Shows         []Clause // proved like ensures, but not assumed at call sites
	Returns       []RetSpec
	Modifies      []string
	HasMod        bool
	Decr          []Clause
	Loops         map[int]*LoopSpec
	Calls         []CallSpec
	Afters        []AfterSpec
	Inline        bool
	Pure          bool
	PureRefs      bool // `pure refs`: a function of its argument VALUES even when they are references (the referenced objects are immutable)
	NoPanic       bool
	Finite        bool // `finite`: every float division of the body has a non-zero divisor (no Inf / NaN comes out of a division)
	Trusted       string
	AssumeEnsures string // `assumeensures "reason"`: the ensures clauses are assumed (not proved) while the body is still verified for its other clauses
	AssumeFrame   string // `assumeframe "reason"`: the modifies clause is assumed (not proved) while the body is still verified
	Lets          []LetSpec
	Waived        map[string]string // obligation suffix -> reason: generated and attempted, but not claimed
	Bounded       bool              // `bounded F`: F is an exhaustive enumerator (ghost Go func() (cases int, failures []string)) run natively
	ScopePkg      string            // package path whose scope resolves identifiers (extern contracts declared in a package file)
	ModAny        bool              // `modifies anything`: no frame is claimed; callers havoc the heap
	Lemma         bool              // a contract-only obligation (no code): `lemma name` blocks
	Params        []string          // for lemma blocks: "x Real" declarations
	File          string
	Line          int
}

type TypeInv struct {
	Type   string
	Clause Clause
	Props  []string
}

type ContractFile struct {
	Path      string
	Contracts []*Contract
	TypeInvs  []*TypeInv
}

var clauseKeywords = map[string]bool{
	"props": true, "assumeframe": true, "assumeensures": true, "return": true, "requires": true, "ensures": true, "shows": true, "modifies": true, "decreases": true,
	"loop": true, "call": true, "assert": true, "inline": true, "pure": true, "nopanic": true, "finite": true,
	"trusted": true, "param": true, "let": true, "unclaimed": true,
}

var labelRe = regexp.MustCompile(`^(requires|ensures|shows|invariant|assert|step|exit)\[([A-Za-z0-9_\-]+)\]$`)

// parseContractFile reads the //@ lines of a file.
func parseContractFile(path string) (*ContractFile, error) {
	data, err := os.ReadFile(path)
	if err != nil {
		return nil, err
	}
	cf := &ContractFile{Path: path}
	var cur *Contract
	// pending clause accumulation (continuation lines)
	type pending struct {
		words []string // leading keyword tokens
		text  string
		line  int
	}
	var pend *pending
	var curType *TypeInv
	flush := func() error {
		if pend == nil {
			return nil
		}
		p := pend
		pend = nil
		return addClause(cf, cur, p.words, strings.TrimSpace(p.text), path, p.line)
	}
	lines := strings.Split(string(data), "\n")
	for i, ln := range lines {
		t := strings.TrimSpace(ln)
		if !strings.HasPrefix(t, "//@") {
			continue
		}
		body := t[3:]
		// strip trailing comment "  // ..."
		if j := strings.Index(body, " // "); j >= 0 {
			body = body[:j]
		}
		trim := strings.TrimSpace(body)
		if trim == "" {
			continue
		}
		fields := strings.Fields(trim)
		kw := fields[0]
		if m := labelRe.FindStringSubmatch(kw); m != nil {
			kw = m[1]
		}
		switch {
		case kw == "func" || kw == "extern" || kw == "lemma" || kw == "bounded":
			if err := flush(); err != nil {
				return nil, err
			}
			curType = nil
			ref := strings.TrimSpace(trim[len(fields[0]):])
			cur = &Contract{Ref: ref, Extern: kw == "extern", Lemma: kw == "lemma", Bounded: kw == "bounded", Loops: map[int]*LoopSpec{}, File: path, Line: i + 1}
			cf.Contracts = append(cf.Contracts, cur)
		case kw == "type":
			if err := flush(); err != nil {
				return nil, err
			}
			// type T invariant expr
			if len(fields) < 4 || fields[2] != "invariant" {
				return nil, fmt.Errorf("%s:%d: bad type clause", path, i+1)
			}
			idx := strings.Index(trim, "invariant")
			txt := strings.TrimSpace(trim[idx+len("invariant"):])
			curType = &TypeInv{Type: fields[1], Clause: Clause{Text: txt, File: path, Line: i + 1}}
			cf.TypeInvs = append(cf.TypeInvs, curType)
			cur = nil
			pend = nil
		case clauseKeywords[kw]:
			if err := flush(); err != nil {
				return nil, err
			}
			if cur == nil {
				if curType != nil && kw == "props" {
					curType.Props = fields[1:]
					continue
				}
				return nil, fmt.Errorf("%s:%d: clause outside func block", path, i+1)
			}
			pend = &pending{words: fields, text: trim, line: i + 1}
		default:
			// continuation
			if pend != nil {
				pend.text += " " + trim
			} else if curType != nil {
				curType.Clause.Text += " " + trim
			} else {
				return nil, fmt.Errorf("%s:%d: unexpected line %q", path, i+1, trim)
			}
		}
	}
	if err := flush(); err != nil {
		return nil, err
	}
	for _, ti := range cf.TypeInvs {
		e, err := parseSpecExpr(ti.Clause.Text)
		if err != nil {
			return nil, fmt.Errorf("%s:%d: %v", path, ti.Clause.Line, err)
		}
		ti.Clause.Expr = e
	}
	return cf, nil
}

func mkClause(text, path string, line int, label string) (Clause, error) {
	e, err := parseSpecExpr(text)
	if err != nil {
		return Clause{}, fmt.Errorf("%s:%d: %v in %q", path, line, err, text)
	}
	return Clause{Label: label, Text: text, Expr: e, File: path, Line: line}, nil
}

func addClause(cf *ContractFile, c *Contract, words []string, text, path string, line int) error {
	kw := words[0]
	label := ""
	if m := labelRe.FindStringSubmatch(kw); m != nil {
		kw, label = m[1], m[2]
	}
	rest := strings.TrimSpace(text[len(words[0]):])
	switch kw {
	case "props":
		c.Props = append(c.Props, strings.Fields(rest)...)
	case "inline":
		c.Inline = true
	case "pure":
		c.Pure = true
		if strings.Contains(rest, "refs") {
			c.PureRefs = true
		}
	case "nopanic":
		c.NoPanic = true
	case "finite":
		c.Finite = true
	case "trusted":
		c.Trusted = strings.Trim(rest, `"`)
		if c.Trusted == "" {
			c.Trusted = "trusted"
		}
	case "assumeensures":
		c.AssumeEnsures = strings.Trim(rest, `"`)
		if c.AssumeEnsures == "" {
			c.AssumeEnsures = "assumed"
		}
	case "assumeframe":
		c.AssumeFrame = strings.Trim(rest, `"`)
		if c.AssumeFrame == "" {
			c.AssumeFrame = "assumed"
		}
	case "unclaimed":
		f := strings.Fields(rest)
		if len(f) < 2 {
			return fmt.Errorf("%s:%d: unclaimed <obligation> \"reason\"", path, line)
		}
		if c.Waived == nil {
			c.Waived = map[string]string{}
		}
		c.Waived[f[0]] = strings.Trim(strings.TrimSpace(rest[len(f[0]):]), `"`)
	case "param":
		c.Params = append(c.Params, rest)
	case "let":
		i := strings.Index(rest, "=")
		if i < 0 {
			return fmt.Errorf("%s:%d: let name = expr", path, line)
		}
		e, err := parseSpecExpr(strings.TrimSpace(rest[i+1:]))
		if err != nil {
			return fmt.Errorf("%s:%d: %v", path, line, err)
		}
		c.Lets = append(c.Lets, LetSpec{Name: strings.TrimSpace(rest[:i]), Expr: e})
	case "requires":
		cl, err := mkClause(rest, path, line, label)
		if err != nil {
			return err
		}
		c.Requires = append(c.Requires, cl)
	case "ensures":
		cl, err := mkClause(rest, path, line, label)
		if err != nil {
			return err
		}
		c.Ensures = append(c.Ensures, cl)
	case "shows":
		cl, err := mkClause(rest, path, line, label)
		if err != nil {
			return err
		}
		c.Shows = append(c.Shows, cl)
	case "modifies":
		c.HasMod = true
		for _, p := range strings.Split(rest, ",") {
			p = strings.TrimSpace(p)
			if p == "anything" {
				c.ModAny = true
				c.HasMod = false
				continue
			}
			if p != "" && p != "nothing" {
				c.Modifies = append(c.Modifies, p)
			}
		}
	case "decreases":
		cl, err := mkClause(rest, path, line, "")
		if err != nil {
			return err
		}
		c.Decr = append(c.Decr, cl)
	case "loop":
		// loop k invariant[label] expr | loop k decreases expr
		if len(words) < 4 {
			return fmt.Errorf("%s:%d: bad loop clause", path, line)
		}
		k, err := strconv.Atoi(words[1])
		if err != nil {
			return fmt.Errorf("%s:%d: bad loop ordinal", path, line)
		}
		kind := words[2]
		lab := ""
		if m := labelRe.FindStringSubmatch(kind); m != nil {
			kind, lab = m[1], m[2]
		}
		idx := strings.Index(text, words[2])
		etxt := strings.TrimSpace(text[idx+len(words[2]):])
		ls := c.Loops[k]
		if ls == nil {
			ls = &LoopSpec{}
			c.Loops[k] = ls
		}
		cl, err := mkClause(etxt, path, line, lab)
		if err != nil {
			return err
		}
		switch kind {
		case "invariant":
			ls.Invariants = append(ls.Invariants, cl)
		case "decreases":
			ls.Decreases = append(ls.Decreases, cl)
		case "step":
			ls.Steps = append(ls.Steps, cl)
		case "exit":
			ls.Exits = append(ls.Exits, cl)
		default:
			return fmt.Errorf("%s:%d: bad loop clause kind %q", path, line, kind)
		}
	case "return":
		// return k ensures[label] expr
		if len(words) < 4 {
			return fmt.Errorf("%s:%d: return k ensures expr", path, line)
		}
		k, err := strconv.Atoi(words[1])
		if err != nil {
			return fmt.Errorf("%s:%d: bad return ordinal", path, line)
		}
		kind, lab := words[2], ""
		if m := labelRe.FindStringSubmatch(kind); m != nil {
			kind, lab = m[1], m[2]
		}
		if kind != "ensures" {
			return fmt.Errorf("%s:%d: return k ensures expr", path, line)
		}
		idx := strings.Index(text, words[2])
		cl, err := mkClause(strings.TrimSpace(text[idx+len(words[2]):]), path, line, lab)
		if err != nil {
			return err
		}
		c.Returns = append(c.Returns, RetSpec{K: k, Assert: cl})
	case "call":
		// call callee#k assert expr
		callLab := ""
		if len(words) >= 4 {
			if m := labelRe.FindStringSubmatch(words[2]); m != nil && m[1] == "assert" {
				callLab = m[2]
				text = strings.Replace(text, " "+words[2]+" ", " assert ", 1)
				words[2] = "assert"
			}
		}
		if len(words) < 4 || words[2] != "assert" {
			return fmt.Errorf("%s:%d: bad call clause", path, line)
		}
		callee := words[1]
		k := 0
		if j := strings.LastIndex(callee, "#"); j >= 0 {
			n, err := strconv.Atoi(callee[j+1:])
			if err != nil {
				return fmt.Errorf("%s:%d: bad call ordinal", path, line)
			}
			k = n
			callee = callee[:j]
		}
		idx := strings.Index(text, " assert ")
		cl, err := mkClause(strings.TrimSpace(text[idx+8:]), path, line, callLab)
		if err != nil {
			return err
		}
		c.Calls = append(c.Calls, CallSpec{Callee: callee, K: k, Assert: cl})
	case "assert":
		// assert after var#k: expr
		if len(words) < 4 || words[1] != "after" {
			return fmt.Errorf("%s:%d: bad assert clause", path, line)
		}
		v := strings.TrimSuffix(words[2], ":")
		k := 1
		if j := strings.LastIndex(v, "#"); j >= 0 {
			n, err := strconv.Atoi(v[j+1:])
			if err != nil {
				return fmt.Errorf("%s:%d: bad assert ordinal", path, line)
			}
			k = n
			v = v[:j]
		}
		idx := strings.Index(text, ":")
		cl, err := mkClause(strings.TrimSpace(text[idx+1:]), path, line, "")
		if err != nil {
			return err
		}
		c.Afters = append(c.Afters, AfterSpec{Var: v, K: k, Assert: cl})
	}
	return nil
}

// parseSpecExpr parses a specification expression: Go expression syntax extended
// with ==> and <==> (lowest precedence, right associative).
func parseSpecExpr(text string) (ast.Expr, error) {
	src := strings.ReplaceAll(text, "<==>", " || verif__IFF || ")
	src = strings.ReplaceAll(src, "==>", " || verif__IMP || ")
	e, err := parser.ParseExprFrom(token.NewFileSet(), "", src, 0)
	if err != nil {
		return nil, err
	}
	return rewriteImp(e), nil
}

func isMarker(e ast.Expr) string {
	if id, ok := e.(*ast.Ident); ok {
		switch id.Name {
		case "verif__IMP":
			return "$imp"
		case "verif__IFF":
			return "$iff"
		}
	}
	return ""
}

func flattenOr(e ast.Expr, out *[]ast.Expr) {
	if b, ok := e.(*ast.BinaryExpr); ok && b.Op == token.LOR {
		flattenOr(b.X, out)
		flattenOr(b.Y, out)
		return
	}
	*out = append(*out, e)
}

func rewriteImp(e ast.Expr) ast.Expr {
	switch x := e.(type) {
	case *ast.BinaryExpr:
		if x.Op == token.LOR {
			var ops []ast.Expr
			flattenOr(x, &ops)
			hasMarker := false
			for _, o := range ops {
				if isMarker(o) != "" {
					hasMarker = true
				}
			}
			if hasMarker {
				// split at markers: seg0 M1 seg1 M2 seg2 ...; right assoc
				var segs []ast.Expr
				var marks []string
				var cur []ast.Expr
				for _, o := range ops {
					if m := isMarker(o); m != "" {
						segs = append(segs, joinOr(cur))
						marks = append(marks, m)
						cur = nil
					} else {
						cur = append(cur, rewriteImp(o))
					}
				}
				segs = append(segs, joinOr(cur))
				res := segs[len(segs)-1]
				for i := len(marks) - 1; i >= 0; i-- {
					res = &ast.CallExpr{Fun: ast.NewIdent(marks[i]), Args: []ast.Expr{segs[i], res}}
				}
				return res
			}
		}
		return &ast.BinaryExpr{X: rewriteImp(x.X), Op: x.Op, Y: rewriteImp(x.Y)}
	case *ast.ParenExpr:
		return &ast.ParenExpr{X: rewriteImp(x.X)}
	case *ast.UnaryExpr:
		return &ast.UnaryExpr{Op: x.Op, X: rewriteImp(x.X)}
	case *ast.CallExpr:
		args := make([]ast.Expr, len(x.Args))
		for i, a := range x.Args {
			args[i] = rewriteImp(a)
		}
		return &ast.CallExpr{Fun: rewriteImp(x.Fun), Args: args}
	case *ast.IndexExpr:
		return &ast.IndexExpr{X: rewriteImp(x.X), Index: rewriteImp(x.Index)}
	case *ast.SliceExpr:
		r := &ast.SliceExpr{X: rewriteImp(x.X), Slice3: x.Slice3}
		if x.Low != nil {
			r.Low = rewriteImp(x.Low)
		}
		if x.High != nil {
			r.High = rewriteImp(x.High)
		}
		if x.Max != nil {
			r.Max = rewriteImp(x.Max)
		}
		return r
	case *ast.SelectorExpr:
		return &ast.SelectorExpr{X: rewriteImp(x.X), Sel: x.Sel}
	case *ast.StarExpr:
		return &ast.StarExpr{X: rewriteImp(x.X)}
	case *ast.CompositeLit:
		elts := make([]ast.Expr, len(x.Elts))
		for i, a := range x.Elts {
			elts[i] = rewriteImp(a)
		}
		return &ast.CompositeLit{Type: x.Type, Elts: elts}
	case *ast.KeyValueExpr:
		return &ast.KeyValueExpr{Key: x.Key, Value: rewriteImp(x.Value)}
	case *ast.TypeAssertExpr:
		return &ast.TypeAssertExpr{X: rewriteImp(x.X), Type: x.Type}
	}
	return e
}

func joinOr(xs []ast.Expr) ast.Expr {
	if len(xs) == 0 {
		return ast.NewIdent("false")
	}
	r := xs[0]
	for _, x := range xs[1:] {
		r = &ast.BinaryExpr{X: r, Op: token.LOR, Y: x}
	}
	return r
}
