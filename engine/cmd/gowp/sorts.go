package main

// Go type -> SMT sort mapping, datatype declarations, zero values, range facts.

import (
	"fmt"
	"go/types"
	"sort"
	"strings"
)

// Sorts registers the datatypes needed by the queries of one engine run.
type Sorts struct {
	structs  map[string]*structSort // keyed by type string
	order    []*structSort
	boxed    map[string]string // type string -> sort, for box/unbox functions
	boxOrder []string
	byStruct map[*types.Struct]*structSort
	boxTypes map[string]types.Type
	tags     map[string]int // type string -> interface tag
	tagOrder []string
	tagTypes []types.Type
	ufuns    map[string]string // name -> declaration command
	ufOrder  []string
	axioms   []axiom
}

type axiom struct {
	trigger string // symbol whose presence in the query pulls the axiom in
	cmd     string
}

type structSort struct {
	key    string
	name   string // sort name
	ctor   string
	fields []string // selector names
	ftypes []types.Type
	fsorts []string
	st     *types.Struct
}

func newSorts() *Sorts {
	return &Sorts{structs: map[string]*structSort{}, boxed: map[string]string{}, tags: map[string]int{}, ufuns: map[string]string{}}
}

func typeKey(t types.Type) string {
	return types.TypeString(t, func(p *types.Package) string { return p.Name() })
}

func mangle(t types.Type) string { return sanitize(typeKey(t)) }

func isFloat(t types.Type) bool {
	b, ok := t.Underlying().(*types.Basic)
	return ok && b.Info()&types.IsFloat != 0
}

func isInteger(t types.Type) bool {
	b, ok := t.Underlying().(*types.Basic)
	return ok && b.Info()&types.IsInteger != 0
}

func isString(t types.Type) bool {
	b, ok := t.Underlying().(*types.Basic)
	return ok && b.Info()&types.IsString != 0
}

func isBool(t types.Type) bool {
	b, ok := t.Underlying().(*types.Basic)
	return ok && b.Info()&types.IsBoolean != 0
}

func isPointer(t types.Type) bool {
	_, ok := t.Underlying().(*types.Pointer)
	return ok
}

func isInterface(t types.Type) bool {
	_, ok := t.Underlying().(*types.Interface)
	return ok
}

// SortOf maps a Go type to an SMT sort, registering datatypes as needed.
func (s *Sorts) SortOf(t types.Type) string {
	if t == nil {
		return "Int"
	}
	switch u := t.Underlying().(type) {
	case *types.Basic:
		switch {
		case u.Info()&types.IsBoolean != 0:
			return "Bool"
		case u.Info()&types.IsInteger != 0:
			return "Int"
		case u.Info()&types.IsFloat != 0:
			return "Real"
		case u.Info()&types.IsString != 0:
			return "Str"
		case u.Kind() == types.UnsafePointer:
			return "Int"
		case u.Kind() == types.UntypedNil:
			return "Int"
		}
		return "Int"
	case *types.Pointer, *types.Map, *types.Chan, *types.Signature:
		return "Int"
	case *types.Slice:
		return "Slice"
	case *types.Array:
		return "(Array Int " + s.SortOf(u.Elem()) + ")"
	case *types.Interface:
		return "Iface"
	case *types.Struct:
		return s.structSortOf(t, u).name
	case *types.Tuple:
		return "Int"
	}
	return "Int"
}

func (s *Sorts) structSortOf(t types.Type, st *types.Struct) *structSort {
	key := typeKey(t)
	if ss, ok := s.structs[key]; ok {
		return ss
	}
	// `type B A` shares A's struct: pointers convert freely between *A and *B, so both names
	// must denote the same sort and the same field heaps
	if s.byStruct == nil {
		s.byStruct = map[*types.Struct]*structSort{}
	}
	if ss, ok := s.byStruct[st]; ok {
		s.structs[key] = ss
		return ss
	}
	ss := &structSort{key: key, st: st}
	s.byStruct[st] = ss
	m := mangle(t)
	if _, named := t.(*types.Named); !named {
		m = fmt.Sprintf("anon%d", len(s.structs))
	}
	ss.name = "S." + m
	ss.ctor = "mk." + m
	s.structs[key] = ss // register before recursion (recursion only through Int-sorted refs)
	for i := 0; i < st.NumFields(); i++ {
		f := st.Field(i)
		ss.fields = append(ss.fields, fmt.Sprintf("%s.%s", m, sanitize(f.Name())))
		ss.ftypes = append(ss.ftypes, f.Type())
		ss.fsorts = append(ss.fsorts, s.SortOf(f.Type()))
	}
	s.order = append(s.order, ss) // appended after its field sorts: dependency order
	return ss
}

func (s *Sorts) structOf(t types.Type) *structSort {
	st, ok := t.Underlying().(*types.Struct)
	if !ok {
		return nil
	}
	return s.structSortOf(t, st)
}

// Tag returns the interface type tag for a concrete type.
func (s *Sorts) Tag(t types.Type) int {
	k := typeKey(t)
	if n, ok := s.tags[k]; ok {
		return n
	}
	n := len(s.tags) + 1
	s.tags[k] = n
	s.tagOrder = append(s.tagOrder, k)
	s.tagTypes = append(s.tagTypes, t)
	return n
}

func (s *Sorts) tagType(tag int) types.Type {
	if tag >= 1 && tag <= len(s.tagTypes) {
		return s.tagTypes[tag-1]
	}
	return nil
}

// Box returns the names of the injection functions for values of type t in interfaces.
func (s *Sorts) Box(t types.Type) (box, unbox string) {
	k := typeKey(t)
	m := mangle(t)
	if _, ok := s.boxed[k]; !ok {
		s.boxed[k] = s.SortOf(t)
		s.boxOrder = append(s.boxOrder, k)
		if s.boxTypes == nil {
			s.boxTypes = map[string]types.Type{}
		}
		s.boxTypes[k] = t
	}
	return "box." + m, "unbox." + m
}

// UFun declares an uninterpreted function once.
func (s *Sorts) UFun(name string, argSorts []string, res string) {
	if _, ok := s.ufuns[name]; ok {
		return
	}
	s.ufuns[name] = fmt.Sprintf("(declare-fun %s (%s) %s)", name, strings.Join(argSorts, " "), res)
	s.ufOrder = append(s.ufOrder, name)
}

func (s *Sorts) Axiom(trigger, cmd string) {
	for _, a := range s.axioms {
		if a.cmd == cmd {
			return
		}
	}
	s.axioms = append(s.axioms, axiom{trigger, cmd})
}

const emptyStr = "(mkstr ((as const (Array Int Int)) 0) 0 0)"

const basePrelude = `(set-option :produce-models true)
(set-logic ALL)
(declare-datatypes ((Str 0)) (((mkstr (s.arr (Array Int Int)) (s.off Int) (s.len Int)))))
(declare-datatypes ((Slice 0)) (((mkslice (sl.base Int) (sl.off Int) (sl.len Int) (sl.cap Int)))))
(declare-datatypes ((Iface 0)) (((mkiface (if.tag Int) (if.val Int)))))
(define-fun gdiv ((a Int) (b Int)) Int (ite (>= a 0) (ite (> b 0) (div a b) (- (div a (- b)))) (ite (> b 0) (- (div (- a) b)) (div (- a) (- b)))))
(define-fun gmod ((a Int) (b Int)) Int (- a (* b (gdiv a b))))
(define-fun rtrunc ((x Real)) Int (ite (>= x 0.0) (to_int x) (- (to_int (- x)))))
(declare-fun s.ix (Str Int) Int)
(declare-fun sl.ix (Slice Int) Int)
(assert (forall ((s Str) (i Int)) (! (= (s.ix s i) (+ (s.off s) i)) :pattern ((s.ix s i)))))
(assert (forall ((s Slice) (i Int)) (! (= (sl.ix s i) (+ (sl.off s) i)) :pattern ((sl.ix s i)))))
(define-fun s.at ((s Str) (i Int)) Int (select (s.arr s) (s.ix s i)))
(define-fun emptystr () Str (mkstr ((as const (Array Int Int)) 0) 0 0))
`

const streqAxioms = `(declare-fun streq (Str Str) Bool)
(declare-fun streq.wit (Str Str) Int)
(assert (forall ((a Str) (b Str)) (! (=> (streq a b) (= (s.len a) (s.len b))) :pattern ((streq a b)))))
(assert (forall ((a Str) (b Str) (j Int)) (! (=> (and (streq a b) (<= (s.off a) j) (< j (+ (s.off a) (s.len a)))) (= (select (s.arr a) j) (select (s.arr b) (+ (- j (s.off a)) (s.off b))))) :pattern ((streq a b) (select (s.arr a) j)))))
(assert (forall ((a Str)) (! (streq a a) :pattern ((streq a a)))))
(assert (forall ((a Str) (b Str)) (! (=> (and (= (s.len a) (s.len b)) (=> (and (<= 0 (streq.wit a b)) (< (streq.wit a b) (s.len a))) (= (s.at a (streq.wit a b)) (s.at b (streq.wit a b))))) (streq a b)) :pattern ((streq a b)))))
(assert (forall ((a Str) (b Str)) (! (= (streq a b) (streq b a)) :pattern ((streq a b)))))
(assert (forall ((a Str) (b Str) (c Str)) (! (=> (and (streq a b) (streq b c)) (streq a c)) :pattern ((streq a b) (streq b c)))))
`

const strcatAxioms = `(declare-fun strcat (Str Str) Str)
(assert (forall ((a Str) (b Str)) (! (and (= (s.len (strcat a b)) (+ (s.len a) (s.len b))) (= (s.off (strcat a b)) 0)) :pattern ((strcat a b)))))
(assert (forall ((a Str) (b Str) (i Int)) (! (and (=> (and (<= 0 i) (< i (s.len a))) (= (s.at (strcat a b) i) (s.at a i))) (=> (and (<= (s.len a) i) (< i (+ (s.len a) (s.len b)))) (= (s.at (strcat a b) i) (s.at b (- i (s.len a)))))) :pattern ((s.ix (strcat a b) i)))))
`

// Prelude renders sort/function declarations. Only datatypes (cheap) are always
// emitted; axioms are emitted when their trigger symbol occurs in body.
func (s *Sorts) Prelude(body string) string {
	var b strings.Builder
	b.WriteString(basePrelude)
	for _, ss := range s.order {
		if len(ss.fields) == 0 {
			fmt.Fprintf(&b, "(declare-datatypes ((%s 0)) (((%s))))\n", ss.name, ss.ctor)
			continue
		}
		fmt.Fprintf(&b, "(declare-datatypes ((%s 0)) (((%s", ss.name, ss.ctor)
		for i, f := range ss.fields {
			fmt.Fprintf(&b, " (%s %s)", f, ss.fsorts[i])
		}
		b.WriteString("))))\n")
	}
	for _, k := range s.boxOrder {
		m := sanitize(k)
		srt := s.boxed[k]
		if !strings.Contains(body, "box."+m) {
			continue
		}
		fmt.Fprintf(&b, "(declare-fun box.%s (%s) Int)\n(declare-fun unbox.%s (Int) %s)\n", m, srt, m, srt)
		fmt.Fprintf(&b, "(assert (forall ((x %s)) (! (= (unbox.%s (box.%s x)) x) :pattern ((box.%s x)))))\n", srt, m, m, m)
	}
	if strings.Contains(body, "streq") || strings.Contains(body, "strkey") {
		b.WriteString(streqAxioms)
	}
	if strings.Contains(body, "strcat") {
		b.WriteString(strcatAxioms)
	}
	// axioms first (as text), so that every function an emitted axiom mentions gets declared
	var ax strings.Builder
	for _, a := range s.axioms {
		if a.trigger == "" || strings.Contains(body, a.trigger) {
			ax.WriteString(a.cmd)
			ax.WriteByte('\n')
		}
	}
	scan := body + ax.String()
	for _, n := range s.ufOrder {
		if strings.Contains(scan, n) {
			b.WriteString(s.ufuns[n])
			b.WriteByte('\n')
		}
	}
	b.WriteString(ax.String())
	return b.String()
}

// Zero returns the SMT zero value of a Go type.
func (s *Sorts) Zero(t types.Type) string {
	switch u := t.Underlying().(type) {
	case *types.Basic:
		switch {
		case u.Info()&types.IsBoolean != 0:
			return "false"
		case u.Info()&types.IsInteger != 0:
			return "0"
		case u.Info()&types.IsFloat != 0:
			return "0.0"
		case u.Info()&types.IsString != 0:
			return emptyStr
		}
		return "0"
	case *types.Slice:
		return "(mkslice 0 0 0 0)"
	case *types.Array:
		return "((as const " + s.SortOf(t) + ") " + s.Zero(u.Elem()) + ")"
	case *types.Interface:
		return "(mkiface 0 0)"
	case *types.Struct:
		ss := s.structSortOf(t, u)
		if len(ss.fields) == 0 {
			return ss.ctor
		}
		parts := make([]string, len(ss.fields))
		for i := range ss.fields {
			parts[i] = s.Zero(ss.ftypes[i])
		}
		return "(" + ss.ctor + " " + strings.Join(parts, " ") + ")"
	}
	return "0"
}

// RangeFact returns a formula stating the representation invariant of a value
// of type t (unsigned ranges, non-negative lengths), or "true". depth-limited.
func (s *Sorts) RangeFact(t types.Type, v string, depth int) string {
	switch u := t.Underlying().(type) {
	case *types.Basic:
		switch u.Kind() {
		case types.Uint8:
			return fmt.Sprintf("(and (<= 0 %s) (< %s 256))", v, v)
		case types.Uint16:
			return fmt.Sprintf("(and (<= 0 %s) (< %s 65536))", v, v)
		case types.Uint32:
			return fmt.Sprintf("(and (<= 0 %s) (< %s 4294967296))", v, v)
		case types.Uint, types.Uint64, types.Uintptr:
			return fmt.Sprintf("(<= 0 %s)", v)
		case types.Int8:
			return fmt.Sprintf("(and (<= (- 128) %s) (< %s 128))", v, v)
		case types.Int32:
			return fmt.Sprintf("(and (<= (- 2147483648) %s) (< %s 2147483648))", v, v)
		case types.String:
			return fmt.Sprintf("(and (<= 0 (s.len %s)) (<= 0 (s.off %s)))", v, v)
		}
	case *types.Slice:
		return fmt.Sprintf("(and (<= 0 (sl.len %s)) (<= (sl.len %s) (sl.cap %s)) (<= 0 (sl.off %s)) (<= 0 (sl.base %s)) (=> (= (sl.base %s) 0) (= (sl.cap %s) 0)))", v, v, v, v, v, v, v)
	case *types.Pointer, *types.Map:
		return fmt.Sprintf("(<= 0 %s)", v)
	case *types.Interface:
		return fmt.Sprintf("(and (<= 0 (if.tag %s)) (=> (= (if.tag %s) 0) (= (if.val %s) 0)))", v, v, v)
	case *types.Struct:
		if depth <= 0 {
			return "true"
		}
		ss := s.structSortOf(t, u)
		var parts []string
		for i, f := range ss.fields {
			p := s.RangeFact(ss.ftypes[i], "("+f+" "+v+")", depth-1)
			if p != "true" {
				parts = append(parts, p)
			}
		}
		return and(parts...)
	}
	return "true"
}

// AllocFact states that every reference held in a value of type t (pointers, slice bases,
// interface payloads, also inside struct fields) lies below the allocation watermark.
func (s *Sorts) AllocFact(t types.Type, v, alloc string, depth int) string {
	switch u := t.Underlying().(type) {
	case *types.Pointer, *types.Map:
		return fmt.Sprintf("(< %s %s)", v, alloc)
	case *types.Slice:
		return fmt.Sprintf("(< (sl.base %s) %s)", v, alloc)
	case *types.Interface:
		return fmt.Sprintf("(< (if.val %s) %s)", v, alloc)
	case *types.Struct:
		if depth <= 0 {
			return "true"
		}
		ss := s.structSortOf(t, u)
		var parts []string
		for i, f := range ss.fields {
			p := s.AllocFact(ss.ftypes[i], "("+f+" "+v+")", alloc, depth-1)
			if p != "true" {
				parts = append(parts, p)
			}
		}
		return and(parts...)
	}
	return "true"
}

// sortedKeys helper
func sortedKeys[V any](m map[string]V) []string {
	ks := make([]string, 0, len(m))
	for k := range m {
		ks = append(ks, k)
	}
	sort.Strings(ks)
	return ks
}
