package main

// Symbolic executor over go/ssa (naive form): produces a passified program (Defs)
// plus a list of obligations, cutting loops at invariants and calls at contracts.

import (
	"fmt"
	"go/ast"
	"go/constant"
	"go/token"
	"go/types"
	"math/big"
	"sort"
	"strings"

	"golang.org/x/tools/go/ssa"
)

type Val struct {
	T    string
	Ty   types.Type
	Addr *LVal
	Tup  []Val
	// for untyped spec constants
	Const constant.Value
}

const (
	lvCell = iota
	lvHeap
	lvSliceElem
	lvGlobal
)

type PathElem struct {
	IsIdx bool
	Field int
	Idx   string
	From  types.Type // type the element is applied to
	To    types.Type // resulting type
}

type LVal struct {
	Kind  int
	Cell  *ssa.Alloc
	Ptr   string
	Slice string
	Idx   string
	Glob  *ssa.Global
	Base  types.Type // type of the root object
	Path  []PathElem
}

func (l *LVal) extend(p PathElem) *LVal {
	n := *l
	n.Path = append(append([]PathElem{}, l.Path...), p)
	return &n
}

func (l *LVal) typ() types.Type {
	if len(l.Path) == 0 {
		return l.Base
	}
	return l.Path[len(l.Path)-1].To
}

type State struct {
	pc       string
	cells    map[*ssa.Alloc]string
	globs    map[*ssa.Global]string
	heap     map[string]string
	heapBase string
	alloc    string
	dead     bool
	// ghost: number of calls made so far per callee name (only the names a contract mentions in calls(f))
	calls map[string]string
}

func (s *State) clone() *State {
	n := &State{pc: s.pc, heapBase: s.heapBase, alloc: s.alloc, dead: s.dead,
		cells: make(map[*ssa.Alloc]string, len(s.cells)),
		globs: make(map[*ssa.Global]string, len(s.globs)),
		heap:  make(map[string]string, len(s.heap))}
	for k, v := range s.cells {
		n.cells[k] = v
	}
	for k, v := range s.globs {
		n.globs[k] = v
	}
	for k, v := range s.heap {
		n.heap[k] = v
	}
	if len(s.calls) > 0 {
		n.calls = make(map[string]string, len(s.calls))
		for k, v := range s.calls {
			n.calls[k] = v
		}
	}
	return n
}

func (s *State) callCount(name string) string {
	if v := s.calls[name]; v != "" {
		return v
	}
	return "0"
}

type Obligation struct {
	Name     string
	Func     string
	Kind     string
	Explicit bool // comes from a written contract clause
	Claimed  bool
	Desc     string
	Pos      string
	PC       string
	Goal     string
	Props    []string
	fc       *fnCtx
	Inputs   []modelInput
	Skolems  []modelInput
	Clause   ast.Expr
	// result
	Res     SolverResult
	Trivial bool
	Nodes   int
	Script  string
}

type modelInput struct {
	Name string
	Term string
	Ty   types.Type
}

// fnCtx is one activation (top-level verified function or inlined callee).
type fnCtx struct {
	eng      *Engine
	fn       *ssa.Function
	contract *Contract
	top      *fnCtx // top-level activation (owns defs, obligations, counters)
	defs     *Defs
	vals     map[ssa.Value]Val
	exitSeen map[string]int
	escaping map[*ssa.Alloc]bool
	inline   bool // inlined activation
	specMode bool // no obligations at all (spec evaluation)
	depth    int

	// top-level only
	obligations []*Obligation
	kindCtr     map[string]int
	heapInit    map[string]string
	heapSorts   map[string]string
	strLits     map[string]string
	entry       *State
	params      map[string]Val // entry values of parameters by name
	paramOrder  []string
	imprecise   []string
	externsUsed map[string]bool
	tablesUsed  map[string]bool
	inlinedFns  map[string]bool
	calleeUsed  map[string]bool
	loopInfo    []*loopInfo
	assumeScan  []string
	callOrd     map[string]int
	storeOrd    map[*ssa.Alloc]int

	inlineFailed bool
	specErrors   []string
	lemmaName    string
	callOrds     map[ssa.Instruction]int
	waivedUsed   []string
	recMeasures  []string
	heapElemTy   map[string]types.Type
	alloc0       string
	specSides    *[]string
	sitePos      token.Pos
	curPos       token.Pos // position of the clause being evaluated (lexical resolution of shadowed locals)
	curSkolems   []modelInput
	boundCalls   map[int]bool
	countCalls   map[string]bool // callee names mentioned in calls(f) by the contract
	stableFVs    []string        // addresses of captured variables that are never assigned after their capture
	wantResults  map[string]bool // "f#k" keys mentioned in callresult(f, k) by the contract
	callResults  map[string]Val  // results of the last execution of those call sites
	boundAfters  map[int]bool
	framedBases  map[string]bool
	allowed      map[string][]string
	curLoop      *loopInfo

	// per activation
	returns   []retSite
	loops     map[*ssa.BasicBlock]*loopInfo
	phiEdges  map[*ssa.BasicBlock][]inEdge
	cellPos   map[string]token.Pos
	cellAlloc map[string]*ssa.Alloc
}

type retSite struct {
	st   *State
	vals []Val
	pos  token.Pos
}

type loopInfo struct {
	header  *ssa.BasicBlock
	blocks  map[*ssa.BasicBlock]bool
	ordinal int
	spec    *LoopSpec
	// recorded at header for decreases
	measures []string
	hdrState *State
}

func (fc *fnCtx) S() *Sorts { return fc.eng.sorts }

func (fc *fnCtx) noteImprecise(format string, a ...any) {
	msg := fmt.Sprintf(format, a...)
	t := fc.top
	for _, m := range t.imprecise {
		if m == msg {
			return
		}
	}
	t.imprecise = append(t.imprecise, msg)
}

// ---------------------------------------------------------------------------
// heap

func (fc *fnCtx) heapGet(st *State, name, sort string) string {
	t := fc.top
	if _, ok := t.heapSorts[name]; !ok {
		t.heapSorts[name] = sort
	}
	if v, ok := st.heap[name]; ok {
		return v
	}
	key := name + "@" + st.heapBase
	if n, ok := t.heapInit[key]; ok {
		return n
	}
	n := fc.defs.Declare("H."+name+"."+st.heapBase, sort)
	t.heapInit[key] = n
	if len(t.stableFVs) > 0 && t.entry != nil && st.heapBase != t.entry.heapBase && (strings.HasPrefix(name, "f.") || strings.HasPrefix(name, "p.")) {
		if e0, ok := t.heapInit[name+"@"+t.entry.heapBase]; ok || t.entry.heap[name] == "" {
			if !ok {
				e0 = fc.heapGet(t.entry, name, sort)
			}
			for _, pv := range t.stableFVs {
				fc.defs.Axiom(n, fmt.Sprintf("(= (select %s %s) (select %s %s))", n, pv, e0, pv))
			}
		}
	}
	// representation invariants of stored values (non-negative lengths, unsigned ranges) hold in every heap
	if et := t.heapElemTy[name]; et != nil {
		if strings.HasPrefix(name, "f.") || strings.HasPrefix(name, "p.") {
			if rf := fc.S().RangeFact(et, fmt.Sprintf("(select %s r)", n), 1); rf != "true" {
				fc.defs.Axiom(n, fmt.Sprintf("(forall ((r Int)) (! %s :pattern ((select %s r))))", rf, n))
			}
		} else if strings.HasPrefix(name, "e.") {
			if rf := fc.S().RangeFact(et, fmt.Sprintf("(select (select %s r) i)", n), 1); rf != "true" {
				fc.defs.Axiom(n, fmt.Sprintf("(forall ((r Int) (i Int)) (! %s :pattern ((select (select %s r) i))))", rf, n))
			}
		}
	}
	if st.heapBase == "0" && t.alloc0 != "" {
		// well-formed entry heap: stored pointers and slice backing arrays were allocated before entry
		switch et := t.heapElemTy[name]; {
		case et == nil:
		case isPointer(et) && strings.HasPrefix(name, "f.") || isPointer(et) && strings.HasPrefix(name, "p."):
			fc.defs.Axiom(n, fmt.Sprintf("(forall ((r Int)) (! (and (<= 0 (select %s r)) (< (select %s r) %s)) :pattern ((select %s r))))", n, n, t.alloc0, n))
		case isSliceT(et) && (strings.HasPrefix(name, "f.") || strings.HasPrefix(name, "p.")):
			fc.defs.Axiom(n, fmt.Sprintf("(forall ((r Int)) (! (and (<= 0 (sl.base (select %s r))) (< (sl.base (select %s r)) %s)) :pattern ((select %s r))))", n, n, t.alloc0, n))
		case strings.HasPrefix(name, "e."):
			// slice elements: pointers / slices stored in them (directly or in struct fields)
			elem := fmt.Sprintf("(select (select %s r) i)", n)
			var facts []string
			add := func(term string, ft types.Type) {
				if isPointer(ft) {
					facts = append(facts, fmt.Sprintf("(<= 0 %s) (< %s %s)", term, term, t.alloc0))
				} else if isSliceT(ft) {
					facts = append(facts, fmt.Sprintf("(<= 0 (sl.base %s)) (< (sl.base %s) %s)", term, term, t.alloc0))
				}
			}
			add(elem, et)
			if ss := fc.S().structOf(et); ss != nil {
				for i, f := range ss.fields {
					add("("+f+" "+elem+")", ss.ftypes[i])
				}
			}
			if len(facts) > 0 {
				fc.defs.Axiom(n, fmt.Sprintf("(forall ((r Int) (i Int)) (! (and %s) :pattern (%s)))", strings.Join(facts, " "), elem))
			}
		}
	}
	if t.framedBases[st.heapBase] && t.entry != nil {
		// heap at a loop header: the function's own frame holds there (proved at loop entry and back edges)
		fc.defs.Axiom(n, fc.frameFact(name, sort, n))
	}
	return n
}

// frameFact: every location of heap `name` allocated at function entry and not
// listed in the function's modifies clause has its entry value in `cur`.
func (fc *fnCtx) frameFact(name, sort, cur string) string {
	t := fc.top
	entryBase := &State{heapBase: t.entry.heapBase, heap: t.entry.heap}
	ini := fc.heapGet(entryBase, name, sort)
	var excl []string
	for _, r := range t.frameAllowed()[name] {
		excl = append(excl, not(eq("r", r)))
	}
	cond := and(append([]string{"(< 0 r)", "(< r " + t.entry.alloc + ")"}, excl...)...)
	if df, ok := fc.defs.byName[cur]; ok && df.Body == "" {
		return fmt.Sprintf("(forall ((r Int)) (! (=> %s (= (select %s r) (select %s r))) :pattern ((select %s r))))", cond, cur, ini, cur)
	}
	return fmt.Sprintf("(forall ((r Int)) (=> %s (= (select %s r) (select %s r))))", cond, cur, ini)
}

func (fc *fnCtx) frameAllowed() map[string][]string {
	t := fc.top
	if t.allowed != nil {
		return t.allowed
	}
	t.allowed = map[string][]string{}
	c := t.contract
	if c == nil || t.entry == nil {
		return t.allowed
	}
	env := &SpecEnv{fc: t, st: t.entry, vars: t.params, bound: map[string]Val{}, pkg: t.fn.Package(), lets: letsOf(c)}
	for _, m := range c.Modifies {
		locs, err := t.modLocs(env, m)
		if err != nil {
			t.specError(Clause{Text: "modifies " + m, File: c.File, Line: c.Line}, err)
			continue
		}
		for _, l := range locs {
			t.allowed[l.heap] = append(t.allowed[l.heap], l.ref)
		}
	}
	return t.allowed
}

func (fc *fnCtx) heapSet(st *State, name, sort, term string) {
	t := fc.top
	if _, ok := t.heapSorts[name]; !ok {
		t.heapSorts[name] = sort
	}
	st.heap[name] = fc.defs.Define("H."+name, sort, term)
}

func (fc *fnCtx) entryBase() string {
	if fc.top.entry != nil {
		return fc.top.entry.heapBase
	}
	return "0"
}

func (fc *fnCtx) havocAllHeap(st *State, why string) {
	st.heap = map[string]string{}
	st.heapBase = fc.defs.fresh("hv")
	for g := range st.globs {
		delete(st.globs, g)
	}
	st.globs = map[*ssa.Global]string{}
	// globals re-declared lazily with the new base
}

func isSliceT(t types.Type) bool {
	_, ok := t.Underlying().(*types.Slice)
	return ok
}

func (fc *fnCtx) heapFieldName(structT types.Type, field int) (string, string) {
	ss := fc.S().structOf(structT)
	name := "f." + ss.fields[field]
	fc.top.heapElemTy[name] = ss.ftypes[field]
	return name, "(Array Int " + ss.fsorts[field] + ")"
}

func (fc *fnCtx) heapPtrName(t types.Type) (string, string) {
	if a, ok := t.Underlying().(*types.Array); ok {
		return fc.heapElemName(a.Elem())
	}
	name := "p." + mangle(t)
	fc.top.heapElemTy[name] = t
	return name, "(Array Int " + fc.S().SortOf(t) + ")"
}

func (fc *fnCtx) heapElemName(elem types.Type) (string, string) {
	fc.top.heapElemTy["e."+mangle(elem)] = elem
	return "e." + mangle(elem), "(Array Int (Array Int " + fc.S().SortOf(elem) + "))"
}

func (fc *fnCtx) globGet(st *State, g *ssa.Global) string {
	if v, ok := st.globs[g]; ok {
		return v
	}
	et := g.Type().(*types.Pointer).Elem()
	key := "G." + g.Pkg.Pkg.Name() + "." + g.Name() + "@" + st.heapBase
	t := fc.top
	if n, ok := t.heapInit[key]; ok {
		return n
	}
	n := fc.defs.Declare("G."+g.Pkg.Pkg.Name()+"."+g.Name(), fc.S().SortOf(et))
	t.heapInit[key] = n
	return n
}

// readRoot reads the root object of an lvalue, consuming a leading field path
// element when the root is a heap struct (per-field heaps).
func (fc *fnCtx) readLVal(st *State, l *LVal) string {
	var v string
	path := l.Path
	switch l.Kind {
	case lvCell:
		v = st.cells[l.Cell]
		if v == "" {
			v = fc.S().Zero(l.Base)
		}
	case lvGlobal:
		v = fc.globGet(st, l.Glob)
	case lvSliceElem:
		hn, hs := fc.heapElemName(l.Base)
		h := fc.heapGet(st, hn, hs)
		v = fc.defs.Select(fc.defs.Select(h, fc.slBase(l.Slice)), fc.slIdx(l.Slice, l.Idx))
	case lvHeap:
		if ss := fc.S().structOf(l.Base); ss != nil {
			if len(path) > 0 && !path[0].IsIdx {
				hn, hs := fc.heapFieldName(l.Base, path[0].Field)
				v = fc.defs.Select(fc.heapGet(st, hn, hs), l.Ptr)
				path = path[1:]
			} else {
				// whole struct: rebuild from field heaps
				if len(ss.fields) == 0 {
					v = ss.ctor
				} else {
					parts := make([]string, len(ss.fields))
					for i := range ss.fields {
						hn, hs := fc.heapFieldName(l.Base, i)
						parts[i] = fc.defs.Select(fc.heapGet(st, hn, hs), l.Ptr)
					}
					v = "(" + ss.ctor + " " + strings.Join(parts, " ") + ")"
				}
			}
		} else {
			hn, hs := fc.heapPtrName(l.Base)
			v = fc.defs.Select(fc.heapGet(st, hn, hs), l.Ptr)
		}
	}
	for _, p := range path {
		v = fc.projPath(v, p)
	}
	return v
}

func (fc *fnCtx) projPath(v string, p PathElem) string {
	if p.IsIdx {
		return fc.defs.Select(v, p.Idx)
	}
	ss := fc.S().structOf(p.From)
	return fc.defs.Field(ss.fields[p.Field], ss.ctor, p.Field, v)
}

// fieldOf projects field k of a struct value of type t.
func (fc *fnCtx) fieldOf(t types.Type, k int, v string) string {
	ss := fc.S().structOf(t)
	return fc.defs.Field(ss.fields[k], ss.ctor, k, v)
}

// runeStr is string(rune(r)).
func (fc *fnCtx) runeStr(r string) string {
	fc.S().UFun("runestr", []string{"Int"}, "Str")
	fc.S().Axiom("runestr", "(assert (forall ((r Int)) (! (and (>= (s.len (runestr r)) 1) (<= (s.len (runestr r)) 4) (>= (s.off (runestr r)) 0) (=> (and (<= 0 r) (< r 128)) (and (= (s.len (runestr r)) 1) (= (s.at (runestr r) 0) r))) (=> (or (< r 0) (>= r 128)) (>= (s.at (runestr r) 0) 128))) :pattern ((runestr r)))))")
	return "(runestr " + r + ")"
}

// strLen / strAt simplify through string literals (mkstr ARR 0 n).
func (fc *fnCtx) strLen(s string) string { return fc.defs.Field("s.len", "mkstr", 2, s) }

func (fc *fnCtx) strAt(s, i string) string {
	b := fc.defs.resolve(s)
	parts := splitTop(b)
	if len(parts) == 4 && parts[0] == "mkstr" && parts[2] == "0" {
		return fc.defs.Select(parts[1], i)
	}
	return "(s.at " + s + " " + i + ")"
}

func (fc *fnCtx) slBase(s string) string { return fc.defs.Field("sl.base", "mkslice", 0, s) }
func (fc *fnCtx) slOff(s string) string  { return fc.defs.Field("sl.off", "mkslice", 1, s) }
func (fc *fnCtx) slLen(s string) string  { return fc.defs.Field("sl.len", "mkslice", 2, s) }
func (fc *fnCtx) slCap(s string) string  { return fc.defs.Field("sl.cap", "mkslice", 3, s) }
func (fc *fnCtx) slIdx(s, i string) string {
	off := fc.slOff(s)
	if off == "0" {
		return i
	}
	return "(sl.ix " + s + " " + i + ")"
}

// updPath returns v with the sub-object at path replaced by nv.
func (fc *fnCtx) updPath(v string, path []PathElem, nv string) string {
	if len(path) == 0 {
		return nv
	}
	p := path[0]
	if p.IsIdx {
		inner := fc.updPath(fc.defs.Select(v, p.Idx), path[1:], nv)
		return fmt.Sprintf("(store %s %s %s)", v, p.Idx, inner)
	}
	ss := fc.S().structOf(p.From)
	parts := make([]string, len(ss.fields))
	for i, f := range ss.fields {
		if i == p.Field {
			parts[i] = fc.updPath(fc.defs.Field(f, ss.ctor, i, v), path[1:], nv)
		} else {
			parts[i] = fc.defs.Field(f, ss.ctor, i, v)
		}
	}
	return "(" + ss.ctor + " " + strings.Join(parts, " ") + ")"
}

func (fc *fnCtx) writeLVal(st *State, l *LVal, nv string) {
	switch l.Kind {
	case lvCell:
		cur := st.cells[l.Cell]
		if cur == "" {
			cur = fc.S().Zero(l.Base)
		}
		st.cells[l.Cell] = fc.defs.Define(cellName(l.Cell), fc.S().SortOf(l.Base), fc.updPath(cur, l.Path, nv))
	case lvGlobal:
		cur := fc.globGet(st, l.Glob)
		st.globs[l.Glob] = fc.defs.Define("G."+l.Glob.Name(), fc.S().SortOf(l.Base), fc.updPath(cur, l.Path, nv))
	case lvSliceElem:
		hn, hs := fc.heapElemName(l.Base)
		h := fc.heapGet(st, hn, hs)
		idx := fc.slIdx(l.Slice, l.Idx)
		row := fc.defs.Select(h, fc.slBase(l.Slice))
		cur := fc.defs.Select(row, idx)
		fc.heapSet(st, hn, hs, fmt.Sprintf("(store %s %s (store %s %s %s))", h, fc.slBase(l.Slice), row, idx, fc.updPath(cur, l.Path, nv)))
	case lvHeap:
		if ss := fc.S().structOf(l.Base); ss != nil {
			if len(l.Path) > 0 && !l.Path[0].IsIdx {
				hn, hs := fc.heapFieldName(l.Base, l.Path[0].Field)
				h := fc.heapGet(st, hn, hs)
				cur := fc.defs.Select(h, l.Ptr)
				fc.heapSet(st, hn, hs, fmt.Sprintf("(store %s %s %s)", h, l.Ptr, fc.updPath(cur, l.Path[1:], nv)))
			} else {
				nvn := fc.defs.Define("sv", ss.name, nv)
				for i, f := range ss.fields {
					hn, hs := fc.heapFieldName(l.Base, i)
					h := fc.heapGet(st, hn, hs)
					fc.heapSet(st, hn, hs, fmt.Sprintf("(store %s %s %s)", h, l.Ptr, fc.defs.Field(f, ss.ctor, i, nvn)))
				}
			}
		} else {
			hn, hs := fc.heapPtrName(l.Base)
			h := fc.heapGet(st, hn, hs)
			cur := fc.defs.Select(h, l.Ptr)
			fc.heapSet(st, hn, hs, fmt.Sprintf("(store %s %s %s)", h, l.Ptr, fc.updPath(cur, l.Path, nv)))
		}
	}
}

func allocLess(a, b *ssa.Alloc) bool {
	if a.Parent() != b.Parent() {
		return a.Parent().String() < b.Parent().String()
	}
	ba, bb := a.Block(), b.Block()
	if ba != bb {
		if ba == nil || bb == nil {
			return ba == nil
		}
		return ba.Index < bb.Index
	}
	// same block: order of appearance
	if ba != nil {
		for _, ins := range ba.Instrs {
			if ins == ssa.Instruction(a) {
				return true
			}
			if ins == ssa.Instruction(b) {
				return false
			}
		}
	}
	return a.Name() < b.Name()
}

func sortedAllocs(m map[*ssa.Alloc]bool) []*ssa.Alloc {
	out := make([]*ssa.Alloc, 0, len(m))
	for a := range m {
		out = append(out, a)
	}
	sort.Slice(out, func(i, j int) bool { return allocLess(out[i], out[j]) })
	return out
}

func sortedGlobals(m map[*ssa.Global]bool) []*ssa.Global {
	out := make([]*ssa.Global, 0, len(m))
	for g := range m {
		out = append(out, g)
	}
	sort.Slice(out, func(i, j int) bool { return out[i].String() < out[j].String() })
	return out
}

func cellName(a *ssa.Alloc) string {
	if a.Comment != "" {
		return "c." + a.Comment
	}
	return "c." + a.Name()
}

// ---------------------------------------------------------------------------
// obligations

func (fc *fnCtx) oblige(st *State, kind string, ordKey string, goal string, desc string, pos token.Pos, explicit bool) *Obligation {
	if fc.specMode || st.dead {
		return nil
	}
	t := fc.top
	name := ordKey
	if name == "" {
		t.kindCtr[kind]++
		name = fmt.Sprintf("%s@%d", kind, t.kindCtr[kind])
	}
	full := t.funcName() + "#" + name
	for _, o := range t.obligations {
		if o.Name == full {
			// duplicate label: disambiguate
			t.kindCtr[full]++
			full = fmt.Sprintf("%s.%d", full, t.kindCtr[full]+1)
			break
		}
	}
	claimed := explicit
	if !explicit && t.contract != nil && t.contract.NoPanic {
		claimed = true
	}
	if t.contract != nil && t.contract.Waived != nil {
		why, ok := t.contract.Waived[name]
		if !ok {
			for pat, w := range t.contract.Waived {
				if strings.Contains(pat, "*") && wildcardMatch(pat, name) {
					why, ok = w, true
				}
			}
		}
		if ok {
			claimed = false
			desc += " [not claimed: " + why + "]"
			t.waivedUsed = append(t.waivedUsed, t.funcName()+"#"+name+": "+why)
		}
	}
	o := &Obligation{Name: full, Func: t.funcName(), Kind: kind, Explicit: explicit, Claimed: claimed,
		Desc: desc, PC: st.pc, Goal: goal, fc: t}
	if pos.IsValid() {
		p := fc.eng.fset.Position(pos)
		o.Pos = fmt.Sprintf("%s:%d", strings.TrimPrefix(p.Filename, fc.eng.repo+"/"), p.Line)
	}
	if t.contract != nil {
		o.Props = t.contract.Props
	}
	o.Skolems = t.curSkolems
	t.curSkolems = nil
	t.obligations = append(t.obligations, o)
	return o
}

// wildcardMatch: `*` matches any (possibly empty) substring.
func wildcardMatch(pat, s string) bool {
	parts := strings.Split(pat, "*")
	if !strings.HasPrefix(s, parts[0]) {
		return false
	}
	s = s[len(parts[0]):]
	for i := 1; i < len(parts); i++ {
		p := parts[i]
		if i == len(parts)-1 {
			return strings.HasSuffix(s, p)
		}
		j := strings.Index(s, p)
		if j < 0 {
			return false
		}
		s = s[j+len(p):]
	}
	return true
}

func (fc *fnCtx) funcName() string {
	if fc.lemmaName != "" {
		return fc.lemmaName
	}
	return fc.eng.funcDisplayName(fc.fn)
}

func (fc *fnCtx) assume(st *State, fact string) {
	if fact == "true" || fact == "" {
		return
	}
	if fc.specMode && fc.top.specSides != nil {
		// inside a specification: facts about the code being inlined (callee postconditions,
		// representation facts) must not prune paths of the inlined function; they are
		// collected as side conditions of the clause being evaluated
		*fc.top.specSides = append(*fc.top.specSides, implies(st.pc, fact))
		return
	}
	st.pc = fc.defs.Define("pc", "Bool", and(st.pc, fact))
}

// ---------------------------------------------------------------------------
// constants

func (fc *fnCtx) strLit(s string) string {
	t := fc.top
	if n, ok := t.strLits[s]; ok {
		return n
	}
	arr := "((as const (Array Int Int)) 0)"
	for i := 0; i < len(s); i++ {
		arr = fmt.Sprintf("(store %s %d %d)", arr, i, s[i])
	}
	n := fc.defs.Define("strlit", "Str", fmt.Sprintf("(mkstr %s 0 %d)", arr, len(s)))
	t.strLits[s] = n
	return n
}

// deround: go/types rounds typed floating-point constants to their machine precision
// (2./3 as a float32 becomes 0.666666686...). Under the float-as-real reading a constant
// stands for the real number the source denotes, so a machine constant that is the rounding
// of a simple fraction p/q (q <= 4096, within the type's rounding error) is read as p/q.
func deround(r *big.Rat, t types.Type) *big.Rat {
	if r.IsInt() {
		return r
	}
	eps := new(big.Rat).SetFrac64(1, 1<<22) // float32: 2^-23 relative, with slack
	if b, ok := t.Underlying().(*types.Basic); ok && b.Kind() == types.Float64 {
		eps = new(big.Rat).SetFrac64(1, 1<<50)
	}
	abs := new(big.Rat).Abs(r)
	tol := new(big.Rat).Mul(abs, eps)
	// continued-fraction convergents
	x := new(big.Rat).Set(abs)
	h0, h1 := big.NewInt(0), big.NewInt(1)
	k0, k1 := big.NewInt(1), big.NewInt(0)
	for i := 0; i < 24; i++ {
		a := new(big.Int).Quo(x.Num(), x.Denom())
		h2 := new(big.Int).Add(new(big.Int).Mul(a, h1), h0)
		k2 := new(big.Int).Add(new(big.Int).Mul(a, k1), k0)
		if k2.Cmp(big.NewInt(4096)) > 0 {
			break
		}
		cand := new(big.Rat).SetFrac(h2, k2)
		diff := new(big.Rat).Sub(cand, abs)
		if diff.Abs(diff).Cmp(tol) <= 0 {
			if r.Sign() < 0 {
				cand.Neg(cand)
			}
			return cand
		}
		frac := new(big.Rat).Sub(x, new(big.Rat).SetInt(a))
		if frac.Sign() == 0 {
			break
		}
		x = new(big.Rat).Inv(frac)
		h0, h1, k0, k1 = h1, h2, k1, k2
	}
	return r
}

func ratTerm(r *big.Rat) string {
	neg := r.Sign() < 0
	a := new(big.Rat).Abs(r)
	var s string
	if a.IsInt() {
		s = a.Num().String() + ".0"
	} else {
		s = "(/ " + a.Num().String() + ".0 " + a.Denom().String() + ".0)"
	}
	if neg {
		return "(- " + s + ")"
	}
	return s
}

func bigIntTerm(i *big.Int) string {
	if i.Sign() < 0 {
		return "(- " + new(big.Int).Abs(i).String() + ")"
	}
	return i.String()
}

func (fc *fnCtx) constVal(c constant.Value, t types.Type) Val {
	switch {
	case c == nil:
		return Val{T: fc.S().Zero(t), Ty: t}
	case isBool(t):
		if constant.BoolVal(c) {
			return Val{T: "true", Ty: t}
		}
		return Val{T: "false", Ty: t}
	case isInteger(t):
		cv := constant.ToInt(c)
		if bi, ok := constant.Val(cv).(*big.Int); ok {
			return Val{T: bigIntTerm(bi), Ty: t}
		}
		if i, ok := constant.Val(cv).(int64); ok {
			return Val{T: intLit(i), Ty: t}
		}
		return Val{T: "0", Ty: t}
	case isFloat(t):
		cf := constant.ToFloat(c)
		switch x := constant.Val(cf).(type) {
		case *big.Rat:
			return Val{T: ratTerm(deround(x, t)), Ty: t}
		case *big.Float:
			r, _ := x.Rat(nil)
			if r == nil {
				return Val{T: "0.0", Ty: t}
			}
			return Val{T: ratTerm(deround(r, t)), Ty: t}
		case int64:
			return Val{T: ratTerm(new(big.Rat).SetInt64(x)), Ty: t}
		case *big.Int:
			return Val{T: ratTerm(new(big.Rat).SetInt(x)), Ty: t}
		}
		return Val{T: "0.0", Ty: t}
	case isString(t):
		return Val{T: fc.strLit(constant.StringVal(c)), Ty: t}
	}
	return Val{T: fc.S().Zero(t), Ty: t}
}

// ---------------------------------------------------------------------------
// value lookup

func (fc *fnCtx) get(st *State, v ssa.Value) Val {
	switch x := v.(type) {
	case *ssa.Const:
		return fc.constVal(x.Value, x.Type())
	case *ssa.Global:
		return Val{Addr: &LVal{Kind: lvGlobal, Glob: x, Base: x.Type().(*types.Pointer).Elem()}, Ty: x.Type()}
	case *ssa.Function:
		return Val{T: fc.funcRef(x), Ty: x.Type()}
	case *ssa.Builtin:
		return Val{T: "0", Ty: x.Type()}
	}
	if r, ok := fc.vals[v]; ok {
		return r
	}
	// free variable or not yet defined (should not happen in RPO)
	n := fc.defs.Declare("u."+v.Name(), fc.S().SortOf(v.Type()))
	r := Val{T: n, Ty: v.Type()}
	fc.vals[v] = r
	return r
}

func (fc *fnCtx) funcRef(f *ssa.Function) string {
	name := "fn." + sanitize(f.String())
	fc.S().UFun(name, nil, "Int")
	return name
}

// ptrLVal turns a pointer value into an lvalue.
func (fc *fnCtx) ptrLVal(v Val) *LVal {
	if v.Addr != nil {
		return v.Addr
	}
	pt, ok := v.Ty.Underlying().(*types.Pointer)
	if !ok {
		return &LVal{Kind: lvHeap, Ptr: v.T, Base: types.Typ[types.Int]}
	}
	return &LVal{Kind: lvHeap, Ptr: v.T, Base: pt.Elem()}
}

func (fc *fnCtx) setVal(instr ssa.Value, term string) Val {
	srt := fc.S().SortOf(instr.Type())
	n := fc.defs.Define(instr.Name(), srt, term)
	r := Val{T: n, Ty: instr.Type()}
	fc.vals[instr] = r
	return r
}

func (fc *fnCtx) freshVal(st *State, prefix string, t types.Type) Val {
	n := fc.defs.Declare(prefix, fc.S().SortOf(t))
	fc.assume(st, fc.S().RangeFact(t, n, 2))
	if af := fc.S().AllocFact(t, n, st.alloc, 3); af != "true" {
		fc.assume(st, af)
	}
	return Val{T: n, Ty: t}
}

// ---------------------------------------------------------------------------
// escape analysis for Allocs

func allocEscapes(a *ssa.Alloc) bool {
	var check func(v ssa.Value) bool
	seen := map[ssa.Value]bool{}
	check = func(v ssa.Value) bool {
		if seen[v] {
			return false
		}
		seen[v] = true
		refs := v.Referrers()
		if refs == nil {
			return true
		}
		for _, r := range *refs {
			switch x := r.(type) {
			case *ssa.UnOp:
				if x.Op != token.MUL {
					return true
				}
			case *ssa.Store:
				if x.Val == v {
					return true
				}
			case *ssa.FieldAddr:
				if check(x) {
					return true
				}
			case *ssa.IndexAddr:
				if x.X != v {
					return true
				}
				if check(x) {
					return true
				}
			case *ssa.DebugRef:
			case *ssa.MakeClosure:
				// captured by a closure: the variable stays a local cell of this function when no closure can write
				// it (the closure, and the closures it creates, only load from it or from addresses inside it)
				if v != ssa.Value(a) {
					return true
				}
				cf, ok := x.Fn.(*ssa.Function)
				if !ok {
					return true
				}
				for i, b := range x.Bindings {
					if b == v && (i >= len(cf.FreeVars) || !closureOnlyReads(cf.FreeVars[i], map[ssa.Value]bool{})) {
						return true
					}
				}
			default:
				return true
			}
		}
		return false
	}
	return check(a)
}

// closureOnlyReads: inside its closure the captured variable v (a free variable, or an address derived from it) is
// only loaded from, possibly through closures created there; it is never stored to, passed, stored or sliced.
func closureOnlyReads(v ssa.Value, seen map[ssa.Value]bool) bool {
	if seen[v] {
		return true
	}
	seen[v] = true
	refs := v.Referrers()
	if refs == nil {
		return false
	}
	for _, r := range *refs {
		switch x := r.(type) {
		case *ssa.DebugRef:
		case *ssa.UnOp:
			if x.Op != token.MUL {
				return false
			}
		case *ssa.FieldAddr:
			if !closureOnlyReads(x, seen) {
				return false
			}
		case *ssa.IndexAddr:
			if x.X != v || !closureOnlyReads(x, seen) {
				return false
			}
		case *ssa.MakeClosure:
			if _, isFV := v.(*ssa.FreeVar); !isFV {
				return false
			}
			cf, ok := x.Fn.(*ssa.Function)
			if !ok {
				return false
			}
			for i, b := range x.Bindings {
				if b == v && (i >= len(cf.FreeVars) || !closureOnlyReads(cf.FreeVars[i], seen)) {
					return false
				}
			}
		default:
			return false
		}
	}
	return true
}

// ---------------------------------------------------------------------------
// CFG utilities

func (fc *fnCtx) findLoops() {
	fc.loops = map[*ssa.BasicBlock]*loopInfo{}
	fn := fc.fn
	for _, b := range fn.Blocks {
		for _, s := range b.Succs {
			if s.Dominates(b) {
				// back edge b -> s
				li := fc.loops[s]
				if li == nil {
					li = &loopInfo{header: s, blocks: map[*ssa.BasicBlock]bool{s: true}}
					fc.loops[s] = li
				}
				// collect body: nodes reaching b without passing s
				stack := []*ssa.BasicBlock{b}
				for len(stack) > 0 {
					n := stack[len(stack)-1]
					stack = stack[:len(stack)-1]
					if li.blocks[n] {
						continue
					}
					li.blocks[n] = true
					stack = append(stack, n.Preds...)
				}
			}
		}
	}
	// ordinals: by header block index (creation order = source order of loop statements)
	var hs []*ssa.BasicBlock
	for h := range fc.loops {
		hs = append(hs, h)
	}
	sort.Slice(hs, func(i, j int) bool { return hs[i].Index < hs[j].Index })
	// map to source loops by position when syntax is available
	ords := fc.eng.loopOrdinals(fn, hs, fc.loops)
	for i, h := range hs {
		li := fc.loops[h]
		li.ordinal = ords[i]
		if fc.contract != nil && !fc.inline {
			li.spec = fc.contract.Loops[li.ordinal]
		}
	}
}

func isBackEdge(from, to *ssa.BasicBlock) bool { return to.Dominates(from) }

func rpo(fn *ssa.Function) []*ssa.BasicBlock {
	seen := map[*ssa.BasicBlock]bool{}
	var post []*ssa.BasicBlock
	var dfs func(b *ssa.BasicBlock)
	dfs = func(b *ssa.BasicBlock) {
		seen[b] = true
		for _, s := range b.Succs {
			if !seen[s] && !isBackEdge(b, s) {
				dfs(s)
			}
		}
		post = append(post, b)
	}
	if len(fn.Blocks) > 0 {
		dfs(fn.Blocks[0])
	}
	for i, j := 0, len(post)-1; i < j; i, j = i+1, j-1 {
		post[i], post[j] = post[j], post[i]
	}
	return post
}

// ---------------------------------------------------------------------------
// state merging

type inEdge struct {
	from *ssa.BasicBlock
	st   *State
}

func (fc *fnCtx) mergeStates(edges []inEdge, label string) *State {
	var live []inEdge
	for _, e := range edges {
		if !e.st.dead && e.st.pc != "false" {
			live = append(live, e)
		}
	}
	if len(live) == 0 {
		s := &State{pc: "false", dead: true, cells: map[*ssa.Alloc]string{}, globs: map[*ssa.Global]string{}, heap: map[string]string{}, heapBase: "0", alloc: "1"}
		if len(edges) > 0 {
			s.heapBase, s.alloc = edges[0].st.heapBase, edges[0].st.alloc
		}
		return s
	}
	if len(live) == 1 {
		return live[0].st.clone()
	}
	out := live[0].st.clone()
	pcs := make([]string, len(live))
	for i, e := range live {
		pcs[i] = e.st.pc
	}
	out.pc = fc.defs.Define("pc."+label, "Bool", or(pcs...))
	mergeTerm := func(prefix, sort string, vals []string) string {
		same := true
		for _, v := range vals[1:] {
			if v != vals[0] {
				same = false
			}
		}
		if same {
			return vals[0]
		}
		t := vals[len(vals)-1]
		for i := len(vals) - 2; i >= 0; i-- {
			t = ite(pcs[i], vals[i], t)
		}
		return fc.defs.Define(prefix, sort, t)
	}
	// cells
	cellKeys := map[*ssa.Alloc]bool{}
	for _, e := range live {
		for k := range e.st.cells {
			cellKeys[k] = true
		}
	}
	for _, k := range sortedAllocs(cellKeys) {
		vals := make([]string, len(live))
		et := k.Type().(*types.Pointer).Elem()
		for i, e := range live {
			v := e.st.cells[k]
			if v == "" {
				v = fc.S().Zero(et)
			}
			vals[i] = v
		}
		out.cells[k] = mergeTerm(cellName(k), fc.S().SortOf(et), vals)
	}
	// heaps
	basesDiffer := false
	for _, e := range live[1:] {
		if e.st.heapBase != live[0].st.heapBase {
			basesDiffer = true
		}
	}
	heapKeys := map[string]bool{}
	for _, e := range live {
		for k := range e.st.heap {
			heapKeys[k] = true
		}
	}
	if basesDiffer {
		for k := range fc.top.heapSorts {
			heapKeys[k] = true
		}
		out.heapBase = fc.defs.fresh("hm")
		allFramed := true
		for _, e := range live {
			if e.st.heapBase != fc.top.entryBase() && !fc.top.framedBases[e.st.heapBase] {
				allFramed = false
			}
		}
		if allFramed {
			fc.top.framedBases[out.heapBase] = true
		}
	}
	for _, k := range sortedKeys(heapKeys) {
		srt := fc.top.heapSorts[k]
		vals := make([]string, len(live))
		for i, e := range live {
			vals[i] = fc.heapGet(e.st, k, srt)
		}
		out.heap[k] = mergeTerm("H."+k, srt, vals)
	}
	// ghost call counters
	callKeys := map[string]bool{}
	for _, e := range live {
		for k := range e.st.calls {
			callKeys[k] = true
		}
	}
	for _, k := range sortedKeys(callKeys) {
		vals := make([]string, len(live))
		for i, e := range live {
			vals[i] = e.st.callCount(k)
		}
		if out.calls == nil {
			out.calls = map[string]string{}
		}
		out.calls[k] = mergeTerm("calls."+k, "Int", vals)
	}
	// globals
	globKeys := map[*ssa.Global]bool{}
	for _, e := range live {
		for k := range e.st.globs {
			globKeys[k] = true
		}
	}
	for _, k := range sortedGlobals(globKeys) {
		vals := make([]string, len(live))
		for i, e := range live {
			vals[i] = fc.globGet(e.st, k)
		}
		out.globs[k] = mergeTerm("G."+k.Name(), fc.S().SortOf(k.Type().(*types.Pointer).Elem()), vals)
	}
	// alloc watermark
	{
		vals := make([]string, len(live))
		for i, e := range live {
			vals[i] = e.st.alloc
		}
		out.alloc = mergeTerm("alloc", "Int", vals)
	}
	return out
}

// ---------------------------------------------------------------------------
// main execution

// execBody runs the function body from the given entry state with parameter values.
func (fc *fnCtx) execBody(st0 *State, args []Val) {
	fn := fc.fn
	fc.vals = map[ssa.Value]Val{}
	fc.escaping = map[*ssa.Alloc]bool{}
	for i, p := range fn.Params {
		if i < len(args) {
			fc.vals[p] = args[i]
		}
	}
	for _, fv := range fn.FreeVars {
		// free variables: pointers to captured cells; opaque
		n := fc.defs.Declare("fv."+fv.Name(), "Int")
		fc.vals[fv] = Val{T: n, Ty: fv.Type()}
		// the address of a captured variable: never nil, allocated before the closure runs
		fc.assume(st0, fmt.Sprintf("(and (> %s 0) (< %s %s))", n, n, st0.alloc))
		// a captured variable that nothing assigns after its capture (no store to it or into it in the enclosing
		// function after its initialisation nor in any of its closures, its address never handed out) keeps its
		// value whatever the code called from here does: heap havocs leave its cell alone (see heapGet)
		if fc == fc.top && !fc.inline && !fc.specMode && stableCapture(fv) {
			fc.top.stableFVs = append(fc.top.stableFVs, n)
		}
	}
	fc.findLoops()
	order := rpo(fn)
	in := map[*ssa.BasicBlock][]inEdge{}
	if len(order) == 0 {
		return
	}
	in[order[0]] = []inEdge{{nil, st0}}
	for _, b := range order {
		edges := in[b]
		if fc.phiEdges == nil {
			fc.phiEdges = map[*ssa.BasicBlock][]inEdge{}
		}
		fc.phiEdges[b] = edges
		st := fc.mergeStates(edges, fmt.Sprintf("b%d", b.Index))
		if li := fc.loops[b]; li != nil {
			fc.enterLoop(li, st)
		}
		fc.execBlock(b, st, in)
	}
}

func isConstVal(v ssa.Value) bool {
	_, ok := v.(*ssa.Const)
	return ok
}

func (fc *fnCtx) execBlock(b *ssa.BasicBlock, st *State, in map[*ssa.BasicBlock][]inEdge) {
	for _, instr := range b.Instrs {
		if st.dead {
			break
		}
		switch x := instr.(type) {
		case *ssa.If:
			c := fc.get(st, x.Cond).T
			s0, s1 := st.clone(), st.clone()
			s0.pc = fc.defs.Define("pc", "Bool", and(st.pc, c))
			exitFact := ""
			if b.Comment == "rangeindex.loop" {
				// go/ssa lowering of `for i := range x`: the hidden index is incremented and compared
				// with the length taken once before the loop; it never exceeds it, so the loop is left
				// with index+1 == length (stated as an equation: solvers substitute it)
				if cmp, ok := x.Cond.(*ssa.BinOp); ok && cmp.Op == token.LSS {
					exitFact = eq(fc.get(st, cmp.X).T, fc.get(st, cmp.Y).T)
				}
			}
			s1.pc = fc.defs.Define("pc", "Bool", and(st.pc, not(c)))
			if exitFact != "" {
				s1.pc = fc.defs.Define("pc", "Bool", and(s1.pc, exitFact))
			}
			fc.flow(b, b.Succs[0], s0, in)
			fc.flow(b, b.Succs[1], s1, in)
			return
		case *ssa.Jump:
			fc.flow(b, b.Succs[0], st, in)
			return
		case *ssa.Return:
			var vs []Val
			for _, r := range x.Results {
				vs = append(vs, fc.get(st, r))
			}
			fc.returns = append(fc.returns, retSite{st.clone(), vs, x.Pos()})
			return
		case *ssa.Panic:
			fc.oblige(st, "panic", "", "false", "explicit panic reachable", x.Pos(), false)
			return
		default:
			fc.execInstr(st, instr)
		}
	}
}

func (fc *fnCtx) flow(from, to *ssa.BasicBlock, st *State, in map[*ssa.BasicBlock][]inEdge) {
	if isBackEdge(from, to) {
		if li := fc.loops[to]; li != nil {
			fc.closeLoop(li, st, from)
		}
		return
	}
	if !fc.inline && !fc.specMode {
		for _, li := range fc.loops {
			if li.spec == nil || len(li.spec.Exits) == 0 {
				continue
			}
			// the loop is left when control reaches its follow block (the successor of the header
			// outside the loop) from the header or from a `break` block; blocks that end in `break`
			// are not part of the natural loop, so the edge is recognised by its target. A loop
			// without such a follow block (`for { .. }`) is left by any edge out of its body.
			var follow *ssa.BasicBlock
			for _, s := range li.header.Succs {
				if !li.blocks[s] {
					follow = s
				}
			}
			if follow != nil {
				if to != follow || !li.header.Dominates(from) {
					continue
				}
			} else if !li.blocks[from] || li.blocks[to] {
				continue
			}
			// leaving loop li (condition false or break): its exit clauses hold here
			saveLoop, savePos := fc.top.curLoop, fc.top.curPos
			fc.top.curLoop, fc.top.curPos = li, token.NoPos
			for i, ec := range li.spec.Exits {
				env := fc.specEnv(st, nil)
				g, err := env.goal(ec.Expr)
				if err != nil {
					fc.specError(ec, err)
					continue
				}
				name := fc.loopClauseName(li, "exit", i, ec)
				if n := fc.exitSeen[name]; n > 0 {
					name = fmt.Sprintf("%s.x%d", name, n+1)
				}
				if fc.exitSeen == nil {
					fc.exitSeen = map[string]int{}
				}
				fc.exitSeen[fc.loopClauseName(li, "exit", i, ec)]++
				fc.oblige(st, "loop-exit", name, g, "holds when the loop is left: "+ec.Text, token.NoPos, true)
				fc.assume(st, g)
			}
			fc.top.curLoop, fc.top.curPos = saveLoop, savePos
		}
	}
	in[to] = append(in[to], inEdge{from, st})
}

// loop handling ---------------------------------------------------------------

func (fc *fnCtx) loopModified(li *loopInfo) (cells map[*ssa.Alloc]bool, heaps map[string]string, all bool, globs map[*ssa.Global]bool) {
	cells = map[*ssa.Alloc]bool{}
	heaps = map[string]string{}
	globs = map[*ssa.Global]bool{}
	var rootOf func(v ssa.Value) ssa.Value
	rootOf = func(v ssa.Value) ssa.Value {
		switch x := v.(type) {
		case *ssa.FieldAddr:
			return rootOf(x.X)
		case *ssa.IndexAddr:
			if _, isSlice := x.X.Type().Underlying().(*types.Slice); isSlice {
				return x
			}
			return rootOf(x.X)
		}
		return v
	}
	for b := range li.blocks {
		for _, instr := range b.Instrs {
			switch x := instr.(type) {
			case *ssa.Store:
				r := rootOf(x.Addr)
				if a, ok := r.(*ssa.Alloc); ok && !fc.escaping[a] && !allocEscapes(a) {
					cells[a] = true
					continue
				}
				if g, ok := r.(*ssa.Global); ok {
					globs[g] = true
					continue
				}
				all = true // conservative: any heap store havocs the heaps it may touch
			case *ssa.Alloc:
				if !allocEscapes(x) {
					cells[x] = true
				} else {
					all = true
				}
			case *ssa.MapUpdate, *ssa.Send, *ssa.Go, *ssa.Defer:
				all = true
			case *ssa.Call:
				if _, isB := x.Call.Value.(*ssa.Builtin); isB {
					if x.Call.Value.Name() == "append" || x.Call.Value.Name() == "copy" || x.Call.Value.Name() == "delete" {
						all = true
					}
					continue
				}
				if callee := x.Call.StaticCallee(); callee != nil {
					if c := fc.eng.contractFor(callee); c != nil && (c.Pure || (c.HasMod && len(c.Modifies) == 0)) {
						continue
					}
				}
				all = true
			}
		}
	}
	return
}

func (fc *fnCtx) enterLoop(li *loopInfo, st *State) {
	if fc.inline || fc.specMode {
		// loops cannot be inlined
		fc.noteImprecise("loop in inlined function %s", fc.fn.Name())
		st.dead = true
		fc.top.inlineFailed = true
		return
	}
	fc.top.loopInfo = append(fc.top.loopInfo, li)
	// 1. invariant on entry (names resolve as inside the loop: its own hidden cells win)
	fc.top.curLoop = li
	if li.spec != nil {
		for i, inv := range li.spec.Invariants {
			env := fc.specEnv(st, nil)
			g, err := env.goal(inv.Expr)
			if err != nil {
				fc.specError(inv, err)
				continue
			}
			fc.oblige(st, "loop-entry", fc.loopClauseName(li, "entry", i, inv), g, "loop invariant holds on entry: "+inv.Text, token.NoPos, true)
		}
	}
	fc.top.curLoop = li
	fc.top.curPos = token.NoPos
	defer func() { fc.top.curLoop = nil }()
	// the function's frame holds on entry to the loop (needed by the framed havoc below)
	if fc.contract != nil && fc.contract.HasMod && fc.contract.AssumeFrame == "" {
		fc.loopFrameObligations(li, st, "entry")
	}
	// 2. havoc
	cells, _, all, globs := fc.loopModified(li)
	for _, a := range sortedAllocs(cells) {
		et := a.Type().(*types.Pointer).Elem()
		n := fc.defs.Declare(cellName(a)+".l", fc.S().SortOf(et))
		st.cells[a] = n
		fc.assume(st, fc.S().RangeFact(et, n, 2))
	}
	for _, g := range sortedGlobals(globs) {
		et := g.Type().(*types.Pointer).Elem()
		st.globs[g] = fc.defs.Declare("G."+g.Name()+".l", fc.S().SortOf(et))
	}
	defer func() {
		// values held in havocked cells were allocated before the current watermark
		for _, a := range sortedAllocs(cells) {
			et := a.Type().(*types.Pointer).Elem()
			v := st.cells[a]
			if v == "" {
				continue
			}
			if isPointer(et) {
				fc.assume(st, fmt.Sprintf("(< %s %s)", v, st.alloc))
			} else if isSliceT(et) {
				fc.assume(st, fmt.Sprintf("(< (sl.base %s) %s)", v, st.alloc))
			}
		}
	}()
	for _, name := range sortedKeys(fc.top.countCalls) {
		if !loopCalls(li, name) {
			continue
		}
		old := st.callCount(name)
		n := fc.defs.Declare("calls."+name+".l", "Int")
		if st.calls == nil {
			st.calls = map[string]string{}
		}
		st.calls[name] = n
		fc.assume(st, fmt.Sprintf("(>= %s %s)", n, old))
	}
	if all {
		old := st.alloc
		wasFramed := st.heapBase == fc.entryBase() || fc.top.framedBases[st.heapBase]
		fc.havocAllHeap(st, "loop")
		if wasFramed && fc.contract != nil && fc.contract.HasMod {
			fc.top.framedBases[st.heapBase] = true
		}
		st.alloc = fc.defs.Declare("alloc.l", "Int")
		fc.assume(st, fmt.Sprintf("(>= %s %s)", st.alloc, old))
	}
	// range loops: the hidden index starts at -1 and is only incremented (go/ssa lowering)
	if li.header.Comment == "rangeindex.loop" && len(li.header.Instrs) > 0 {
		if ld, ok := li.header.Instrs[0].(*ssa.UnOp); ok {
			if a, ok := ld.X.(*ssa.Alloc); ok && a.Comment == "rangeindex" {
				if v := st.cells[a]; v != "" {
					fc.assume(st, "(>= "+v+" (- 1))")
					// ... and stays below the length read before the loop
					if iff, ok := li.header.Instrs[len(li.header.Instrs)-1].(*ssa.If); ok {
						if cmp, ok := iff.Cond.(*ssa.BinOp); ok && cmp.Op == token.LSS {
							if _, inLoop := fc.vals[cmp.Y]; inLoop || isConstVal(cmp.Y) {
								fc.assume(st, "(< "+v+" "+fc.get(st, cmp.Y).T+")")
							}
						}
					}
				}
			}
		}
	}
	// 3. assume invariant
	if li.spec != nil {
		for _, inv := range li.spec.Invariants {
			env := fc.specEnv(st, nil)
			g, err := env.assumption(inv.Expr)
			if err != nil {
				continue
			}
			fc.assume(st, g)
		}
		li.measures = nil
		for _, d := range li.spec.Decreases {
			env := fc.specEnv(st, nil)
			v, err := env.eval(d.Expr)
			if err != nil {
				fc.specError(d, err)
				continue
			}
			m := fc.defs.Define("measure", "Int", v.T)
			li.measures = append(li.measures, m)
		}
	}
	li.hdrState = st.clone()
}

func (fc *fnCtx) loopClauseName(li *loopInfo, what string, i int, c Clause) string {
	if c.Label != "" {
		return fmt.Sprintf("loop%d-%s-%s", li.ordinal, what, c.Label)
	}
	return fmt.Sprintf("loop%d-%s%d", li.ordinal, what, i+1)
}

// loopFrameObligations: at loop entry / back edge the function's frame holds for
// every heap that differs from its value at the reference point.
func (fc *fnCtx) loopFrameObligations(li *loopInfo, st *State, what string) {
	t := fc.top
	var ref *State
	if what == "entry" {
		ref = t.entry
	} else {
		ref = li.hdrState
	}
	if st.heapBase != fc.entryBase() && !t.framedBases[st.heapBase] {
		fc.oblige(st, "frame", fmt.Sprintf("loop%d-%s-frame-havoc", li.ordinal, what), "false", "frame inside loop: code without a frame contract was called (whole heap havocked)", token.NoPos, true)
		return
	}
	for _, h := range sortedKeys(t.heapSorts) {
		srt := t.heapSorts[h]
		cur := fc.heapGet(st, h, srt)
		if cur == fc.heapGet(ref, h, srt) {
			continue
		}
		g := fc.frameFact(h, srt, cur)
		fc.oblige(st, "frame", fmt.Sprintf("loop%d-%s-frame-%s", li.ordinal, what, h), g, "frame holds at loop "+what+" for heap "+h, token.NoPos, true)
	}
}

func (fc *fnCtx) closeLoop(li *loopInfo, st *State, from *ssa.BasicBlock) {
	if fc.inline || fc.specMode {
		return
	}
	fc.top.curLoop = li
	fc.top.curPos = token.NoPos
	defer func() { fc.top.curLoop = nil }()
	if fc.contract != nil && fc.contract.HasMod && fc.contract.AssumeFrame == "" && li.hdrState != nil && fc.top.framedBases[li.hdrState.heapBase] {
		fc.loopFrameObligations(li, st, "preserved")
	}
	if li.spec == nil {
		return
	}
	suffix := ""
	// several back edges: disambiguate by latch block order
	nback := 0
	for _, p := range li.header.Preds {
		if isBackEdge(p, li.header) {
			nback++
		}
	}
	if nback > 1 {
		k := 0
		for _, p := range li.header.Preds {
			if isBackEdge(p, li.header) {
				k++
				if p == from {
					suffix = fmt.Sprintf(".e%d", k)
				}
			}
		}
	}
	for i, inv := range li.spec.Invariants {
		env := fc.specEnv(st, nil)
		g, err := env.goal(inv.Expr)
		if err != nil {
			fc.specError(inv, err)
			continue
		}
		fc.oblige(st, "loop-preserved", fc.loopClauseName(li, "preserved", i, inv)+suffix, g, "loop invariant preserved: "+inv.Text, token.NoPos, true)
	}
	for i, sc := range li.spec.Steps {
		// old(e) is e at the start of this iteration (the loop head, invariants assumed).
		// Names resolve as at the textual end of the loop body (several locals of the function may
		// share a name: the one in scope there is meant).
		savePos := fc.top.curPos
		var last token.Pos
		for b := range li.blocks {
			for _, ins := range b.Instrs {
				if p := ins.Pos(); p.IsValid() && p > last {
					last = p
				}
			}
		}
		if last.IsValid() {
			fc.top.curPos = last
		}
		env := fc.specEnv(st, nil)
		var head *SpecEnv
		if li.hdrState != nil {
			head = fc.specEnv(li.hdrState, nil)
		}
		fc.top.curPos = savePos
		if li.hdrState != nil {
			env.old = li.hdrState
			env.oldVars = head.vars
			// the key / value variables of a range loop are assigned at the top of the body: inside
			// old(..) they still denote THIS iteration's element (old(m[k]) is the entry of the
			// current key in the state the iteration started from)
			for name := range rangeVarsOf(li) {
				if v, ok := env.vars[name]; ok {
					env.oldVars[name] = v
				}
			}
		}
		g, err := env.goal(sc.Expr)
		if err != nil {
			fc.specError(sc, err)
			continue
		}
		fc.oblige(st, "loop-step", fc.loopClauseName(li, "step", i, sc)+suffix, g, "one iteration takes the loop state from old(..) to ..: "+sc.Text, token.NoPos, true)
	}
	for i, d := range li.spec.Decreases {
		if i >= len(li.measures) {
			break
		}
		env := fc.specEnv(st, nil)
		v, err := env.eval(d.Expr)
		if err != nil {
			fc.specError(d, err)
			continue
		}
		m0 := li.measures[i]
		g := fmt.Sprintf("(and (<= 0 %s) (< %s %s))", m0, v.T, m0)
		fc.oblige(st, "loop-decreases", fmt.Sprintf("loop%d-decreases%d%s", li.ordinal, i+1, suffix), g, "loop measure decreases and is bounded below: "+d.Text, token.NoPos, true)
	}
}

func (fc *fnCtx) specError(c Clause, err error) {
	t := fc.top
	t.specErrors = append(t.specErrors, fmt.Sprintf("%s:%d: %v (in %q)", strings.TrimPrefix(c.File, fc.eng.repo+"/"), c.Line, err, c.Text))
}

// ---------------------------------------------------------------------------
// instructions

func (fc *fnCtx) execInstr(st *State, instr ssa.Instruction) {
	switch x := instr.(type) {
	case *ssa.DebugRef:
	case *ssa.Alloc:
		et := x.Type().(*types.Pointer).Elem()
		if allocEscapes(x) {
			fc.escaping[x] = true
			r := fc.defs.Define(x.Name()+".ref", "Int", st.alloc)
			st.alloc = fc.defs.Define("alloc", "Int", fmt.Sprintf("(+ %s 1)", r))
			fc.vals[x] = Val{T: r, Ty: x.Type()}
			fc.assume(st, fmt.Sprintf("(> %s 0)", r))
			fc.writeLVal(st, &LVal{Kind: lvHeap, Ptr: r, Base: et}, fc.S().Zero(et))
		} else {
			st.cells[x] = fc.S().Zero(et)
			fc.vals[x] = Val{Addr: &LVal{Kind: lvCell, Cell: x, Base: et}, Ty: x.Type()}
		}
	case *ssa.Store:
		addr := fc.get(st, x.Addr)
		v := fc.get(st, x.Val)
		l := fc.ptrLVal(addr)
		fc.checkDeref(st, addr, l, x.Pos())
		prevVal := ""
		if a, ok := x.Addr.(*ssa.Alloc); ok {
			prevVal = st.cells[a]
		}
		fkey, ford := "", 0
		if !fc.inline && !fc.specMode && fc.contract != nil && len(fc.contract.Afters) > 0 {
			if fkey, ford = fieldStoreKey(x); fkey != "" {
				prevVal = fc.readLVal(st, l)
			}
		}
		fc.writeLVal(st, l, fc.materialize(st, v))
		if a, ok := x.Addr.(*ssa.Alloc); ok {
			fc.afterStore(st, a, x, prevVal)
		} else if fkey != "" {
			fc.afterFieldStore(st, fkey, ford, x, prevVal, x.Val.Type())
		}
	case *ssa.UnOp:
		fc.execUnOp(st, x)
	case *ssa.BinOp:
		fc.execBinOp(st, x)
	case *ssa.FieldAddr:
		base := fc.get(st, x.X)
		l := fc.ptrLVal(base)
		fc.checkDeref(st, base, l, x.Pos())
		from := l.typ()
		stt := from.Underlying().(*types.Struct)
		fc.vals[x] = Val{Addr: l.extend(PathElem{Field: x.Field, From: from, To: stt.Field(x.Field).Type()}), Ty: x.Type()}
	case *ssa.Field:
		base := fc.get(st, x.X)
		fc.setVal(x, fc.fieldOf(base.Ty, x.Field, base.T))
	case *ssa.IndexAddr:
		fc.execIndexAddr(st, x)
	case *ssa.Index:
		base := fc.get(st, x.X)
		idx := fc.get(st, x.Index)
		if isString(base.Ty) {
			fc.oblige(st, "index", "", fmt.Sprintf("(and (<= 0 %s) (< %s (s.len %s)))", idx.T, idx.T, base.T), "string index in range", x.Pos(), false)
			fc.setVal(x, fmt.Sprintf("(s.at %s %s)", base.T, idx.T))
		} else if a, ok := base.Ty.Underlying().(*types.Array); ok {
			fc.oblige(st, "index", "", fmt.Sprintf("(and (<= 0 %s) (< %s %d))", idx.T, idx.T, a.Len()), "array index in range", x.Pos(), false)
			fc.setVal(x, fmt.Sprintf("(select %s %s)", base.T, idx.T))
		} else {
			fc.noteImprecise("Index on %s", base.Ty)
			fc.vals[x] = fc.freshVal(st, x.Name(), x.Type())
		}
	case *ssa.Phi:
		// only from && / || in naive form: value is ite over predecessor path conditions
		fc.execPhi(st, x)
	case *ssa.Call:
		fc.execCall(st, x)
		if t := fc.top; fc == t && !fc.inline && !fc.specMode && len(t.wantResults) > 0 {
			if name := siteCalleeName(x.Common()); name != "" {
				if t.callOrds == nil {
					t.callOrds = siteOrdinals(t.fn)
				}
				key := fmt.Sprintf("%s#%d", name, t.callOrds[x])
				if v, ok := fc.vals[x]; ok && t.wantResults[key] {
					t.callResults[key] = v
				}
			}
		}
	case *ssa.ChangeType:
		v := fc.get(st, x.X)
		fc.vals[x] = Val{T: v.T, Ty: x.Type(), Addr: v.Addr}
	case *ssa.Convert:
		fc.execConvert(st, x)
	case *ssa.MakeInterface:
		v := fc.get(st, x.X)
		fc.setVal(x, fc.makeIface(st, v))
	case *ssa.ChangeInterface:
		v := fc.get(st, x.X)
		fc.vals[x] = Val{T: v.T, Ty: x.Type()}
	case *ssa.TypeAssert:
		fc.execTypeAssert(st, x)
	case *ssa.Extract:
		t := fc.get(st, x.Tuple)
		if x.Index < len(t.Tup) {
			e := t.Tup[x.Index]
			if e.Addr != nil {
				fc.vals[x] = e
			} else {
				fc.vals[x] = Val{T: e.T, Ty: x.Type()}
			}
		} else {
			fc.vals[x] = fc.freshVal(st, x.Name(), x.Type())
		}
	case *ssa.Slice:
		fc.execSlice(st, x)
	case *ssa.MakeSlice:
		ln := fc.get(st, x.Len)
		cp := fc.get(st, x.Cap)
		mk := fmt.Sprintf("(and (<= 0 %s) (<= %s %s))", ln.T, ln.T, cp.T)
		fc.oblige(st, "makeslice", "", mk, "make: 0 <= len <= cap", x.Pos(), false)
		fc.assume(st, mk) // execution continues only if make did not panic
		et := x.Type().Underlying().(*types.Slice).Elem()
		r := fc.allocRef(st, x.Name())
		hn, hs := fc.heapElemName(et)
		h := fc.heapGet(st, hn, hs)
		zeroArr := "((as const (Array Int " + fc.S().SortOf(et) + ")) " + fc.S().Zero(et) + ")"
		fc.heapSet(st, hn, hs, fmt.Sprintf("(store %s %s %s)", h, r, zeroArr))
		fc.setVal(x, fmt.Sprintf("(mkslice %s 0 %s %s)", r, ln.T, cp.T))
	case *ssa.MakeMap:
		r := fc.allocRef(st, x.Name())
		fc.setVal(x, r)
		fc.initMap(st, x.Type(), r)
	case *ssa.MapUpdate:
		fc.execMapUpdate(st, x)
	case *ssa.Lookup:
		fc.execLookup(st, x)
	case *ssa.MakeClosure:
		r := fc.allocRef(st, x.Name())
		fc.setVal(x, r)
		// captured cells that some closure may write live in the heap (allocEscapes); those that every
		// capturing closure only reads stay local cells of this function
	case *ssa.Range:
		fc.vals[x] = Val{T: "0", Ty: x.Type(), Tup: []Val{fc.get(st, x.X)}}
	case *ssa.Next:
		fc.execNext(st, x)
	case *ssa.RunDefers:
		if fc.hasDefers() {
			fc.noteImprecise("defers in %s are not modelled", fc.fn.Name())
			fc.havocAllHeap(st, "rundefers")
		}
	case *ssa.Defer:
		fc.noteImprecise("defer in %s", fc.fn.Name())
	case *ssa.Go, *ssa.Send, *ssa.Select:
		fc.noteImprecise("concurrency instruction in %s", fc.fn.Name())
		fc.havocAllHeap(st, "concurrency")
	case *ssa.SliceToArrayPointer, *ssa.MultiConvert:
		fc.noteImprecise("unsupported instruction %T", instr)
		if v, ok := instr.(ssa.Value); ok {
			fc.vals[v] = fc.freshVal(st, v.Name(), v.Type())
		}
	default:
		fc.noteImprecise("unsupported instruction %T", instr)
		if v, ok := instr.(ssa.Value); ok {
			fc.vals[v] = fc.freshVal(st, v.Name(), v.Type())
		}
	}
}

func (fc *fnCtx) hasDefers() bool {
	for _, b := range fc.fn.Blocks {
		for _, i := range b.Instrs {
			if _, ok := i.(*ssa.Defer); ok {
				return true
			}
		}
	}
	return false
}

func (fc *fnCtx) allocRef(st *State, name string) string {
	r := fc.defs.Define(name+".ref", "Int", st.alloc)
	st.alloc = fc.defs.Define("alloc", "Int", fmt.Sprintf("(+ %s 1)", r))
	fc.assume(st, fmt.Sprintf("(> %s 0)", r))
	return r
}

// globalAddr is the address of a package-level variable: a constant, non-nil, distinct per variable
// name (the object behind it is NOT aliased with the global's modelled value: reads through the
// pointer in a callee see the pointer heap).
func (fc *fnCtx) globalAddr(g *ssa.Global) string {
	name := "ga." + sanitize(g.String())
	if _, ok := fc.S().ufuns[name]; !ok {
		fc.S().UFun(name, nil, "Int")
		fc.S().Axiom(name, fmt.Sprintf("(assert (> %s 0))", name))
	}
	return name
}

// materialize turns an address value into a pointer term when it must be stored
// or passed (only heap pointers without path are representable).
func (fc *fnCtx) materialize(st *State, v Val) string {
	if v.Addr == nil {
		return v.T
	}
	l := v.Addr
	if l.Kind == lvHeap && len(l.Path) == 0 {
		return l.Ptr
	}
	if l.Kind == lvGlobal && len(l.Path) == 0 && l.Glob != nil {
		return fc.globalAddr(l.Glob)
	}
	fc.noteImprecise("interior/local address escapes in %s", fc.fn.Name())
	n := fc.defs.Declare("addr", "Int")
	fc.assume(st, fmt.Sprintf("(> %s 0)", n))
	return n
}

func (fc *fnCtx) checkDeref(st *State, v Val, l *LVal, pos token.Pos) {
	if v.Addr != nil {
		return // address derived from a checked base
	}
	if l.Kind == lvHeap {
		fc.oblige(st, "nil", "", fmt.Sprintf("(not (= %s 0))", l.Ptr), "nil pointer dereference", pos, false)
		fc.assume(st, fmt.Sprintf("(not (= %s 0))", l.Ptr))
	}
}

func (fc *fnCtx) execUnOp(st *State, x *ssa.UnOp) {
	v := fc.get(st, x.X)
	switch x.Op {
	case token.MUL:
		l := fc.ptrLVal(v)
		fc.checkDeref(st, v, l, x.Pos())
		term := fc.readLVal(st, l)
		r := fc.setVal(x, term)
		if l.Kind != lvCell {
			fc.assume(st, fc.S().RangeFact(x.Type(), r.T, 1))
			if isPointer(x.Type()) {
				fc.assume(st, fmt.Sprintf("(< %s %s)", r.T, st.alloc))
			}
			if _, ok := x.Type().Underlying().(*types.Slice); ok {
				fc.assume(st, fmt.Sprintf("(< (sl.base %s) %s)", r.T, st.alloc))
			}
		}
	case token.NOT:
		fc.setVal(x, not(v.T))
	case token.SUB:
		if isFloat(x.Type()) {
			fc.setVal(x, "(- "+v.T+")")
		} else {
			fc.setVal(x, fc.wrapInt(x.Type(), "(- "+v.T+")"))
		}
	default:
		fc.noteImprecise("unary %s", x.Op)
		fc.vals[x] = fc.freshVal(st, x.Name(), x.Type())
	}
}

func (fc *fnCtx) wrapInt(t types.Type, term string) string {
	b, ok := t.Underlying().(*types.Basic)
	if !ok {
		return term
	}
	switch b.Kind() {
	case types.Uint8:
		return "(mod " + term + " 256)"
	case types.Uint16:
		return "(mod " + term + " 65536)"
	case types.Uint32:
		return "(mod " + term + " 4294967296)"
	}
	return term
}

func (fc *fnCtx) execBinOp(st *State, x *ssa.BinOp) {
	a := fc.get(st, x.X)
	b := fc.get(st, x.Y)
	t := x.X.Type()
	res, ok := fc.binop(st, x.Op, a, b, t, x.Type(), x.Pos(), false)
	if !ok {
		fc.noteImprecise("binary %s on %s", x.Op, t)
		fc.vals[x] = fc.freshVal(st, x.Name(), x.Type())
		return
	}
	r := fc.setVal(x, res)
	if x.Op == token.QUO && isFloat(t) && !fc.specMode && fc.top.contract != nil && fc.top.contract.Finite {
		// floats are reals here: the one way a division leaves the reals is a zero divisor (Inf or NaN in Go)
		if c, isConst := x.Y.(*ssa.Const); !isConst || (c.Value != nil && constant.Sign(c.Value) == 0) {
			fc.oblige(st, "fdiv", "", not(eq(b.T, "0.0")), "float division: the divisor is not zero (the quotient would be Inf or NaN)", x.Pos(), true)
		}
	}
	if x.Op == token.QUO && isFloat(t) && !fc.specMode {
		if _, isConst := x.Y.(*ssa.Const); !isConst {
			// sign of a real quotient by a variable divisor (solvers do not derive it through
			// the quantified context of a VC): valid facts of division over the reals
			fc.assume(st, fmt.Sprintf("(and (=> (and (> %[2]s 0.0) (>= %[1]s 0.0)) (>= %[3]s 0.0)) (=> (and (> %[2]s 0.0) (<= %[1]s 0.0)) (<= %[3]s 0.0)) (=> (and (< %[2]s 0.0) (>= %[1]s 0.0)) (<= %[3]s 0.0)) (=> (and (< %[2]s 0.0) (<= %[1]s 0.0)) (>= %[3]s 0.0)))", a.T, b.T, r.T))
		}
	}
}

// binop translates a Go binary operation. spec=true suppresses obligations.
func (fc *fnCtx) binop(st *State, op token.Token, a, b Val, opT, resT types.Type, pos token.Pos, spec bool) (string, bool) {
	switch op {
	case token.EQL:
		return fc.goEq(a, b, opT), true
	case token.NEQ:
		return not(fc.goEq(a, b, opT)), true
	}
	switch {
	case isBool(opT):
		switch op {
		case token.LAND, token.AND:
			return and(a.T, b.T), true
		case token.LOR, token.OR:
			return or(a.T, b.T), true
		}
	case isFloat(opT):
		switch op {
		case token.ADD:
			return app("+", a.T, b.T), true
		case token.SUB:
			return app("-", a.T, b.T), true
		case token.MUL:
			return app("*", a.T, b.T), true
		case token.QUO:
			return app("/", a.T, b.T), true
		case token.LSS:
			return app("<", a.T, b.T), true
		case token.LEQ:
			return app("<=", a.T, b.T), true
		case token.GTR:
			return app(">", a.T, b.T), true
		case token.GEQ:
			return app(">=", a.T, b.T), true
		}
	case isInteger(opT):
		switch op {
		case token.ADD:
			return fc.wrapInt(resT, app("+", a.T, b.T)), true
		case token.SUB:
			return fc.wrapInt(resT, app("-", a.T, b.T)), true
		case token.MUL:
			return fc.wrapInt(resT, app("*", a.T, b.T)), true
		case token.QUO, token.REM:
			if !spec {
				fc.oblige(st, "div", "", not(eq(b.T, "0")), "integer division by zero", pos, false)
				fc.assume(st, not(eq(b.T, "0")))
			}
			if _, lit := smallConst(b.T); !lit && fc.defs.inline == 0 {
				// truncated division characterised by multiplication (solvers do badly on div by a
				// variable); the facts are definitional (guarded by b != 0), hence attached to the
				// fresh symbols as axioms rather than to the path condition
				q := fc.defs.Declare("quo", "Int")
				r := fc.defs.Declare("rem", "Int")
				absb := fmt.Sprintf("(ite (>= %s 0) %s (- %s))", b.T, b.T, b.T)
				ax := fmt.Sprintf("(=> (not (= %s 0)) (and (= %s (+ (* %s %s) %s)) (=> (>= %s 0) (and (<= 0 %s) (< %s %s))) (=> (< %s 0) (and (< (- %s) %s) (<= %s 0))) (= %s (gdiv %s %s)) (= %s (gmod %s %s)) %s))",
					b.T, a.T, b.T, q, r, a.T, r, r, absb, a.T, absb, r, r, q, a.T, b.T, r, a.T, b.T, divSignFacts(a.T, b.T, q))
				fc.defs.Axiom(q, ax)
				fc.defs.Axiom(r, ax)
				if op == token.QUO {
					return q, true
				}
				return r, true
			}
			if op == token.QUO {
				return app("gdiv", a.T, b.T), true
			}
			return app("gmod", a.T, b.T), true
		case token.LSS:
			return app("<", a.T, b.T), true
		case token.LEQ:
			return app("<=", a.T, b.T), true
		case token.GTR:
			return app(">", a.T, b.T), true
		case token.GEQ:
			return app(">=", a.T, b.T), true
		case token.SHL:
			if k, ok := smallConst(b.T); ok && k < 62 {
				return fc.wrapInt(resT, fmt.Sprintf("(* %s %d)", a.T, int64(1)<<uint(k))), true
			}
		case token.SHR:
			if k, ok := smallConst(b.T); ok && k < 62 {
				return fmt.Sprintf("(div %s %d)", a.T, int64(1)<<uint(k)), true
			}
		case token.AND:
			if k, ok := smallConst(b.T); ok && k >= 0 && (k+1)&k == 0 {
				// mask 2^n-1 on a non-negative value
				return fmt.Sprintf("(mod %s %d)", a.T, k+1), true
			}
			if k, ok := smallConst(b.T); ok && k >= 0 && k < 1<<16 {
				return bitAndConst(a.T, k), true
			}
			if k, ok := smallConst(a.T); ok && k >= 0 && k < 1<<16 {
				return bitAndConst(b.T, k), true
			}
		case token.OR:
			// x | c = x + c - (x & c) for a constant c and non-negative x
			if k, ok := smallConst(b.T); ok && k >= 0 && k < 1<<16 {
				return fmt.Sprintf("(- (+ %s %d) %s)", a.T, k, bitAndConst(a.T, k)), true
			}
			if k, ok := smallConst(a.T); ok && k >= 0 && k < 1<<16 {
				return fmt.Sprintf("(- (+ %s %d) %s)", b.T, k, bitAndConst(b.T, k)), true
			}
		case token.AND_NOT:
			if k, ok := smallConst(b.T); ok && k >= 0 && k < 1<<16 {
				return fmt.Sprintf("(- %s %s)", a.T, bitAndConst(a.T, k)), true
			}
		}
	case isString(opT):
		switch op {
		case token.ADD:
			return app("strcat", a.T, b.T), true
		case token.LSS, token.LEQ, token.GTR, token.GEQ:
			fc.S().UFun("strless", []string{"Str", "Str"}, "Bool")
			switch op {
			case token.LSS:
				return app("strless", a.T, b.T), true
			case token.GTR:
				return app("strless", b.T, a.T), true
			case token.LEQ:
				return not(app("strless", b.T, a.T)), true
			case token.GEQ:
				return not(app("strless", a.T, b.T)), true
			}
		}
	}
	return "", false
}

// divSignFacts: linear consequences of truncated division that solvers do not
// derive from the multiplicative characterisation on their own.
func divSignFacts(a, b, q string) string {
	return fmt.Sprintf("(=> (and (>= %[1]s 0) (> %[2]s 0)) (and (>= %[3]s 0) (<= %[3]s %[1]s))) (=> (and (<= %[1]s 0) (> %[2]s 0)) (and (<= %[3]s 0) (>= %[3]s %[1]s))) (=> (and (>= %[1]s 0) (< %[2]s 0)) (and (<= %[3]s 0) (>= %[3]s (- %[1]s)))) (=> (and (<= %[1]s 0) (< %[2]s 0)) (and (>= %[3]s 0) (<= %[3]s (- %[1]s)))) (=> (and (> %[1]s 0) (>= %[2]s 2)) (< %[3]s %[1]s))", a, b, q)
}

// bitAndConst is x & k for a non-negative x and a small constant k, bit by bit.
func bitAndConst(x string, k int64) string {
	var parts []string
	for b := 0; b < 17; b++ {
		if k&(1<<uint(b)) != 0 {
			p := int64(1) << uint(b)
			parts = append(parts, fmt.Sprintf("(* (mod (div %s %d) 2) %d)", x, p, p))
		}
	}
	switch len(parts) {
	case 0:
		return "0"
	case 1:
		return parts[0]
	}
	return "(+ " + strings.Join(parts, " ") + ")"
}

func smallConst(t string) (int64, bool) {
	var n int64
	if _, err := fmt.Sscanf(t, "%d", &n); err == nil && fmt.Sprintf("%d", n) == t {
		return n, true
	}
	return 0, false
}

// goEq is Go's == on two values of type t.
func (fc *fnCtx) goEq(a, b Val, t types.Type) string {
	if a.Addr != nil || b.Addr != nil {
		// comparing addresses: only nil comparisons are meaningful here
		if a.Addr != nil && b.Addr == nil && b.T == "0" {
			return "false"
		}
		if b.Addr != nil && a.Addr == nil && a.T == "0" {
			return "false"
		}
		return fc.defs.Declare("addrcmp", "Bool")
	}
	switch u := t.Underlying().(type) {
	case *types.Basic:
		if u.Info()&types.IsString != 0 {
			return fc.strEq(a.T, b.T)
		}
		return eq(a.T, b.T)
	case *types.Struct:
		ss := fc.S().structOf(t)
		var parts []string
		for i, f := range ss.fields {
			parts = append(parts, fc.goEq(Val{T: fc.defs.Field(f, ss.ctor, i, a.T), Ty: ss.ftypes[i]}, Val{T: fc.defs.Field(f, ss.ctor, i, b.T), Ty: ss.ftypes[i]}, ss.ftypes[i]))
		}
		return and(parts...)
	case *types.Array:
		if u.Len() <= 8 {
			var parts []string
			for i := int64(0); i < u.Len(); i++ {
				ai := fc.defs.Select(a.T, fmt.Sprintf("%d", i))
				bi := fc.defs.Select(b.T, fmt.Sprintf("%d", i))
				parts = append(parts, fc.goEq(Val{T: ai, Ty: u.Elem()}, Val{T: bi, Ty: u.Elem()}, u.Elem()))
			}
			return and(parts...)
		}
		return eq(a.T, b.T)
	case *types.Interface:
		// nil comparison or dynamic comparison
		if a.T == "(mkiface 0 0)" {
			return eq("(if.tag "+b.T+")", "0")
		}
		if b.T == "(mkiface 0 0)" {
			return eq("(if.tag "+a.T+")", "0")
		}
		return eq(a.T, b.T)
	case *types.Slice:
		// in code only comparison with nil is legal; inside struct comparisons of
		// specifications, slice fields are compared by identity
		if a.T == "(mkslice 0 0 0 0)" {
			return eq("(sl.base "+b.T+")", "0")
		}
		if b.T == "(mkslice 0 0 0 0)" {
			return eq("(sl.base "+a.T+")", "0")
		}
		return eq(a.T, b.T)
	}
	return eq(a.T, b.T)
}

// strEq: Go string equality. Against a literal it expands pointwise.
func (fc *fnCtx) strEq(a, b string) string {
	t := fc.top
	lit := func(n string) (string, bool) {
		for s, name := range t.strLits {
			if name == n {
				return s, true
			}
		}
		if n == "emptystr" || n == emptyStr {
			return "", true
		}
		return "", false
	}
	if s, ok := lit(b); ok {
		if s2, ok2 := lit(a); ok2 {
			if s == s2 {
				return "true"
			}
			return "false"
		}
		return fc.strEqLit(a, s)
	}
	if s, ok := lit(a); ok {
		return fc.strEqLit(b, s)
	}
	if a == b {
		return "true"
	}
	return app("streq", a, b)
}

func (fc *fnCtx) strEqLit(v, s string) string {
	if len(s) > 24 {
		return app("streq", v, fc.strLit(s))
	}
	parts := []string{fmt.Sprintf("(= (s.len %s) %d)", v, len(s))}
	for i := 0; i < len(s); i++ {
		parts = append(parts, fmt.Sprintf("(= (s.at %s %d) %d)", v, i, s[i]))
	}
	return and(parts...)
}

func (fc *fnCtx) execIndexAddr(st *State, x *ssa.IndexAddr) {
	base := fc.get(st, x.X)
	idx := fc.get(st, x.Index)
	switch u := x.X.Type().Underlying().(type) {
	case *types.Slice:
		fc.oblige(st, "index", "", fmt.Sprintf("(and (<= 0 %s) (< %s (sl.len %s)))", idx.T, idx.T, base.T), "slice index in range", x.Pos(), false)
		fc.assume(st, fmt.Sprintf("(and (<= 0 %s) (< %s (sl.len %s)))", idx.T, idx.T, base.T))
		fc.vals[x] = Val{Addr: &LVal{Kind: lvSliceElem, Slice: base.T, Idx: idx.T, Base: u.Elem()}, Ty: x.Type()}
	case *types.Pointer:
		arr := u.Elem().Underlying().(*types.Array)
		l := fc.ptrLVal(base)
		fc.checkDeref(st, base, l, x.Pos())
		fc.oblige(st, "index", "", fmt.Sprintf("(and (<= 0 %s) (< %s %d))", idx.T, idx.T, arr.Len()), "array index in range", x.Pos(), false)
		fc.assume(st, fmt.Sprintf("(and (<= 0 %s) (< %s %d))", idx.T, idx.T, arr.Len()))
		fc.vals[x] = Val{Addr: l.extend(PathElem{IsIdx: true, Idx: idx.T, From: l.typ(), To: arr.Elem()}), Ty: x.Type()}
	default:
		fc.noteImprecise("IndexAddr on %s", x.X.Type())
		fc.vals[x] = fc.freshVal(st, x.Name(), x.Type())
	}
}

func (fc *fnCtx) execPhi(st *State, x *ssa.Phi) {
	b := x.Block()
	// value depends on which predecessor we came from; in naive form phis only arise
	// from short-circuit operators, whose predecessor edges carry distinct pcs.
	edges := fc.phiEdges[b]
	if len(edges) == 0 {
		fc.vals[x] = fc.freshVal(st, x.Name(), x.Type())
		return
	}
	var term string
	first := true
	for i := len(b.Preds) - 1; i >= 0; i-- {
		p := b.Preds[i]
		var pst *State
		for _, e := range edges {
			if e.from == p {
				pst = e.st
			}
		}
		if pst == nil || pst.dead {
			continue
		}
		v := fc.get(pst, x.Edges[i])
		if first {
			term = v.T
			first = false
		} else {
			term = ite(pst.pc, v.T, term)
		}
	}
	if first {
		fc.vals[x] = fc.freshVal(st, x.Name(), x.Type())
		return
	}
	fc.setVal(x, term)
}

func (fc *fnCtx) execConvert(st *State, x *ssa.Convert) {
	v := fc.get(st, x.X)
	from, to := x.X.Type(), x.Type()
	switch {
	case isInteger(from) && isInteger(to):
		tb := to.Underlying().(*types.Basic)
		fb := from.Underlying().(*types.Basic)
		term := v.T
		if tb.Info()&types.IsUnsigned != 0 && sizeOf(tb) < 8 && (sizeOf(tb) < sizeOf(fb) || fb.Info()&types.IsUnsigned == 0) {
			term = fc.wrapInt(to, v.T)
		}
		fc.setVal(x, term)
	case isInteger(from) && isFloat(to):
		fc.setVal(x, "(to_real "+v.T+")")
	case isFloat(from) && isFloat(to):
		fc.setVal(x, v.T)
	case isFloat(from) && isInteger(to):
		fc.setVal(x, "(rtrunc "+v.T+")")
	case isString(from) && isString(to):
		fc.setVal(x, v.T)
	case isString(to) && isInteger(from):
		// string(rune): a function of the rune; 1..4 bytes; ASCII -> that single byte
		fc.setVal(x, fc.runeStr(v.T))
	case isString(to):
		// []byte / []rune -> string
		r := fc.freshVal(st, x.Name(), to)
		if sl, ok := from.Underlying().(*types.Slice); ok && isInteger(sl.Elem()) && sizeOfT(sl.Elem()) == 1 {
			hn, hs := fc.heapElemName(sl.Elem())
			h := fc.heapGet(st, hn, hs)
			fc.assume(st, fmt.Sprintf("(and (= (s.len %s) (sl.len %s)) (forall ((i Int)) (=> (and (<= 0 i) (< i (sl.len %s))) (= (s.at %s i) (select (select %s (sl.base %s)) (+ (sl.off %s) i))))))", r.T, v.T, v.T, r.T, h, v.T, v.T))
		} else if ok {
			// string([]rune): every rune encodes to 1..4 bytes
			fc.assume(st, fmt.Sprintf("(and (<= (sl.len %s) (s.len %s)) (<= (s.len %s) (* 4 (sl.len %s))))", v.T, r.T, r.T, v.T))
		}
		fc.vals[x] = r
	case isString(from):
		// string -> []byte / []rune
		sl, ok := to.Underlying().(*types.Slice)
		if ok && isInteger(sl.Elem()) && sizeOfT(sl.Elem()) == 1 {
			r := fc.allocRef(st, x.Name())
			hn, hs := fc.heapElemName(sl.Elem())
			h := fc.heapGet(st, hn, hs)
			row := fc.defs.Declare("bytes", "(Array Int Int)")
			fc.assume(st, fmt.Sprintf("(forall ((i Int)) (=> (and (<= 0 i) (< i (s.len %s))) (= (select %s i) (s.at %s i))))", v.T, row, v.T))
			fc.heapSet(st, hn, hs, fmt.Sprintf("(store %s %s %s)", h, r, row))
			fc.setVal(x, fmt.Sprintf("(mkslice %s 0 (s.len %s) (s.len %s))", r, v.T, v.T))
		} else {
			var ref string
			if ok {
				ref = fc.allocRef(st, x.Name())
			}
			r := fc.freshVal(st, x.Name(), to)
			fc.vals[x] = r
			if ok {
				// []rune(s): a fresh slice of 1 rune per 1..4 bytes (invalid bytes give one U+FFFD each)
				fc.assume(st, fmt.Sprintf("(and (= (sl.base %s) %s) (= (sl.off %s) 0) (<= (sl.len %s) (s.len %s)) (<= (s.len %s) (* 4 (sl.len %s))))", r.T, ref, r.T, r.T, v.T, v.T, r.T))
			}
		}
	default:
		if fc.S().SortOf(from) == fc.S().SortOf(to) {
			fc.setVal(x, v.T)
		} else {
			fc.noteImprecise("convert %s -> %s", from, to)
			fc.vals[x] = fc.freshVal(st, x.Name(), to)
		}
	}
}

func sizeOf(b *types.Basic) int {
	switch b.Kind() {
	case types.Int8, types.Uint8:
		return 1
	case types.Int16, types.Uint16:
		return 2
	case types.Int32, types.Uint32:
		return 4
	}
	return 8
}

func sizeOfT(t types.Type) int {
	if b, ok := t.Underlying().(*types.Basic); ok {
		return sizeOf(b)
	}
	return 8
}

func pointerLike(t types.Type) bool {
	switch t.Underlying().(type) {
	case *types.Pointer, *types.Map, *types.Chan, *types.Signature:
		return true
	}
	return false
}

func (fc *fnCtx) makeIface(st *State, v Val) string {
	t := v.Ty
	if isInterface(t) {
		return v.T
	}
	tag := fc.S().Tag(t)
	if pointerLike(t) {
		return fmt.Sprintf("(mkiface %d %s)", tag, fc.materialize(st, v))
	}
	box, _ := fc.S().Box(t)
	return fmt.Sprintf("(mkiface %d (%s %s))", tag, box, v.T)
}

func (fc *fnCtx) unboxIface(v string, t types.Type) string {
	if pointerLike(t) {
		return "(if.val " + v + ")"
	}
	_, unbox := fc.S().Box(t)
	return "(" + unbox + " (if.val " + v + "))"
}

func (fc *fnCtx) execTypeAssert(st *State, x *ssa.TypeAssert) {
	v := fc.get(st, x.X)
	var ok string
	var val Val
	if isInterface(x.AssertedType) {
		okc := fc.defs.Declare("implements", "Bool")
		ok = and(not(eq("(if.tag "+v.T+")", "0")), okc)
		// every type implements the empty interface
		if x.AssertedType.Underlying().(*types.Interface).NumMethods() == 0 {
			ok = not(eq("(if.tag "+v.T+")", "0"))
		}
		val = Val{T: v.T, Ty: x.AssertedType}
	} else {
		tag := fc.S().Tag(x.AssertedType)
		ok = eq("(if.tag "+v.T+")", fmt.Sprintf("%d", tag))
		val = Val{T: fc.unboxIface(v.T, x.AssertedType), Ty: x.AssertedType}
		// the dynamic value of an interface is a well-formed value of its type
		if rf := fc.S().RangeFact(x.AssertedType, val.T, 4); rf != "true" && !fc.specMode {
			fc.assume(st, implies(ok, rf))
		}
	}
	if x.CommaOk {
		okn := fc.defs.Define(x.Name()+".ok", "Bool", ok)
		zero := fc.S().Zero(x.AssertedType)
		vn := fc.defs.Define(x.Name()+".v", fc.S().SortOf(x.AssertedType), ite(okn, val.T, zero))
		fc.vals[x] = Val{Ty: x.Type(), Tup: []Val{{T: vn, Ty: x.AssertedType}, {T: okn, Ty: types.Typ[types.Bool]}}}
		return
	}
	fc.oblige(st, "typeassert", "", ok, "type assertion to "+typeKey(x.AssertedType)+" holds", x.Pos(), false)
	fc.assume(st, ok)
	fc.setVal(x, val.T)
}

func (fc *fnCtx) execSlice(st *State, x *ssa.Slice) {
	base := fc.get(st, x.X)
	var lo, hi, mx string
	if x.Low != nil {
		lo = fc.get(st, x.Low).T
	} else {
		lo = "0"
	}
	switch u := x.X.Type().Underlying().(type) {
	case *types.Basic: // string
		if x.High != nil {
			hi = fc.get(st, x.High).T
		} else {
			hi = "(s.len " + base.T + ")"
		}
		g := fmt.Sprintf("(and (<= 0 %s) (<= %s %s) (<= %s (s.len %s)))", lo, lo, hi, hi, base.T)
		fc.oblige(st, "slice", "", g, "string slice bounds in range", x.Pos(), false)
		fc.assume(st, g)
		sub := fc.setVal(x, fmt.Sprintf("(mkstr (s.arr %s) (+ (s.off %s) %s) (- %s %s))", base.T, base.T, lo, hi, lo))
		if !isAtom(base.T) || fc.defs.byName[base.T] != nil {
			// positions of the substring are positions of the string, shifted (creates the
			// term that lets quantified facts about the whole string fire on the substring)
			fc.assume(st, fmt.Sprintf("(forall ((i Int)) (! (= (s.ix %s i) (s.ix %s (+ i %s))) :pattern ((s.ix %s i))))", sub.T, base.T, lo, sub.T))
		}
	case *types.Slice:
		if x.High != nil {
			hi = fc.get(st, x.High).T
		} else {
			hi = "(sl.len " + base.T + ")"
		}
		if x.Max != nil {
			mx = fc.get(st, x.Max).T
		} else {
			mx = "(sl.cap " + base.T + ")"
		}
		g := fmt.Sprintf("(and (<= 0 %s) (<= %s %s) (<= %s %s) (<= %s (sl.cap %s)))", lo, lo, hi, hi, mx, mx, base.T)
		fc.oblige(st, "slice", "", g, "slice bounds in range", x.Pos(), false)
		fc.assume(st, g)
		sub := fc.setVal(x, fmt.Sprintf("(mkslice (sl.base %s) (+ (sl.off %s) %s) (- %s %s) (- %s %s))", base.T, base.T, lo, hi, lo, mx, lo))
		if (lo != "0" || x.High != nil) && (!isAtom(base.T) || fc.defs.byName[base.T] != nil || strings.HasPrefix(base.T, "c.") || strings.HasPrefix(base.T, "in.")) && !fc.specMode {
			// positions of the sub-slice are positions of the slice, shifted (creates the term
			// that lets quantified facts about the whole slice fire on the sub-slice)
			fc.assume(st, fmt.Sprintf("(forall ((i Int)) (! (= (sl.ix %s i) (sl.ix %s (+ i %s))) :pattern ((sl.ix %s i))))", sub.T, base.T, lo, sub.T))
		}
	case *types.Pointer: // *array
		arr := u.Elem().Underlying().(*types.Array)
		n := fmt.Sprintf("%d", arr.Len())
		if x.High != nil {
			hi = fc.get(st, x.High).T
		} else {
			hi = n
		}
		if x.Max != nil {
			mx = fc.get(st, x.Max).T
		} else {
			mx = n
		}
		if l := base.Addr; l != nil && !(l.Kind == lvHeap && len(l.Path) == 0) && !(l.Kind == lvGlobal && len(l.Path) == 0) && onlyCopyDst(x) {
			// `copy(local.arr[lo:hi], src)`: the slice is a window on an array this function
			// holds by value and it goes nowhere else; the copy is an update of that array
			g := fmt.Sprintf("(and (<= 0 %s) (<= %s %s) (<= %s %s) (<= %s %s))", lo, lo, hi, hi, mx, mx, n)
			fc.oblige(st, "slice", "", g, "array slice bounds in range", x.Pos(), false)
			fc.assume(st, g)
			fc.vals[x] = Val{T: arrWindow, Ty: x.Type(), Addr: l, Tup: []Val{{T: lo}, {T: hi}}}
			return
		}
		p := fc.materialize(st, base)
		g := fmt.Sprintf("(and (<= 0 %s) (<= %s %s) (<= %s %s) (<= %s %s))", lo, lo, hi, hi, mx, mx, n)
		fc.oblige(st, "slice", "", g, "array slice bounds in range", x.Pos(), false)
		fc.assume(st, g)
		fc.setVal(x, fmt.Sprintf("(mkslice %s %s (- %s %s) (- %s %s))", p, lo, hi, lo, mx, lo))
	default:
		fc.noteImprecise("slice of %s", x.X.Type())
		fc.vals[x] = fc.freshVal(st, x.Name(), x.Type())
	}
}

// rangeVarsOf returns the source names of the key / value variables of a range loop: the locals stored at
// the top of its body block, before the first call.
func rangeVarsOf(li *loopInfo) map[string]bool {
	out := map[string]bool{}
	if !strings.HasPrefix(li.header.Comment, "range") || len(li.header.Succs) == 0 {
		return out
	}
	body := li.header.Succs[0]
	if !li.blocks[body] {
		return out
	}
	// a value comes from the range when it is the hidden index, an element read at the hidden index,
	// or a component of the iterator's Next
	isIdx := func(v ssa.Value) bool {
		ld, ok := v.(*ssa.UnOp)
		if !ok || ld.Op != token.MUL {
			return false
		}
		a, ok := ld.X.(*ssa.Alloc)
		return ok && a.Comment == "rangeindex"
	}
	fromRange := func(v ssa.Value) bool {
		switch x := v.(type) {
		case *ssa.Extract:
			_, ok := x.Tuple.(*ssa.Next)
			return ok
		case *ssa.Index:
			return isIdx(x.Index)
		case *ssa.UnOp:
			if isIdx(x) {
				return true
			}
			if x.Op == token.MUL {
				if ia, ok := x.X.(*ssa.IndexAddr); ok {
					return isIdx(ia.Index)
				}
			}
		}
		return false
	}
	for _, ins := range body.Instrs {
		switch x := ins.(type) {
		case *ssa.Store:
			if a, ok := x.Addr.(*ssa.Alloc); ok && a.Comment != "" && a.Comment != "rangeindex" && fromRange(x.Val) {
				out[a.Comment] = true
			}
		case *ssa.Call:
			if _, isB := x.Call.Value.(*ssa.Builtin); !isB {
				return out
			}
		}
	}
	return out
}

// arrWindow marks the value of `a[lo:hi]` for an array a held by value whose only use is
// as the destination of copy (see execSlice and the copy builtin).
const arrWindow = "@arrwindow"

func onlyCopyDst(x *ssa.Slice) bool {
	refs := x.Referrers()
	if refs == nil || len(*refs) == 0 {
		return false
	}
	for _, r := range *refs {
		if _, ok := r.(*ssa.DebugRef); ok {
			continue
		}
		c, ok := r.(*ssa.Call)
		if !ok {
			return false
		}
		b, ok := c.Call.Value.(*ssa.Builtin)
		if !ok || b.Name() != "copy" || len(c.Call.Args) != 2 || c.Call.Args[0] != ssa.Value(x) || c.Call.Args[1] == ssa.Value(x) {
			return false
		}
	}
	return true
}

// fieldStoreKey recognises `p.F = v` for a local pointer variable p: it returns "p.F" and the rank of this
// store among the stores to that field through that variable, in source order.
func fieldStoreKey(x *ssa.Store) (string, int) {
	key := func(s *ssa.Store) string {
		fa, ok := s.Addr.(*ssa.FieldAddr)
		if !ok {
			return ""
		}
		ld, ok := fa.X.(*ssa.UnOp)
		if !ok || ld.Op != token.MUL {
			return ""
		}
		a, ok := ld.X.(*ssa.Alloc)
		if !ok || a.Comment == "" {
			return ""
		}
		pt, ok := fa.X.Type().Underlying().(*types.Pointer)
		if !ok {
			return ""
		}
		stt, ok := pt.Elem().Underlying().(*types.Struct)
		if !ok || fa.Field >= stt.NumFields() {
			return ""
		}
		return a.Comment + "." + stt.Field(fa.Field).Name()
	}
	k := key(x)
	if k == "" {
		return "", 0
	}
	var stores []*ssa.Store
	for _, b := range x.Parent().Blocks {
		for _, ins := range b.Instrs {
			if s, ok := ins.(*ssa.Store); ok && key(s) == k {
				stores = append(stores, s)
			}
		}
	}
	sort.SliceStable(stores, func(i, j int) bool { return stores[i].Pos() < stores[j].Pos() })
	for i, s := range stores {
		if s == x {
			return k, i + 1
		}
	}
	return k, 0
}

// afterFieldStore handles `assert after p.F#k: E` (k-th assignment, in source order, to field F through
// the local pointer p); `prev` is the value of the field just before the assignment.
func (fc *fnCtx) afterFieldStore(st *State, key string, ord int, store *ssa.Store, prevVal string, ty types.Type) {
	t := fc.top
	for i, as := range fc.contract.Afters {
		if as.Var != key || as.K != ord {
			continue
		}
		t.boundAfters[i] = true
		own := map[string]Val{}
		if prevVal != "" {
			own["prev"] = Val{T: prevVal, Ty: ty}
		}
		savePos := t.curPos
		if store.Pos().IsValid() {
			t.curPos = store.Pos()
		}
		env := fc.specEnv(st, own)
		t.curPos = savePos
		g, err := env.goal(as.Assert.Expr)
		if err != nil {
			fc.specError(as.Assert, err)
			continue
		}
		fc.oblige(st, "assert", fmt.Sprintf("assert-after-%s%d", as.Var, as.K), g, "ghost assertion: "+as.Assert.Text, token.NoPos, true)
		fc.assume(st, g)
	}
}

// afterStore handles `assert after var#k` ghost assertions.
func (fc *fnCtx) afterStore(st *State, a *ssa.Alloc, store *ssa.Store, prevVal string) {
	if fc.inline || fc.specMode || fc.contract == nil || len(fc.contract.Afters) == 0 {
		return
	}
	t := fc.top
	// the ordinal of an assignment is its rank among the assignments to that variable in SOURCE order
	// (the order in which blocks are executed symbolically is an artefact)
	ord := 0
	if refs := a.Referrers(); refs != nil {
		var stores []*ssa.Store
		for _, r := range *refs {
			if s, ok := r.(*ssa.Store); ok && s.Addr == a {
				stores = append(stores, s)
			}
		}
		sort.SliceStable(stores, func(i, j int) bool { return stores[i].Pos() < stores[j].Pos() })
		for i, s := range stores {
			if s == store {
				ord = i + 1
			}
		}
	}
	// first store to a parameter cell is the parameter spill: not counted
	for i, as := range fc.contract.Afters {
		if as.Var != a.Comment {
			continue
		}
		k := ord
		if fc.isParamCell(a) {
			k--
		}
		if k != as.K {
			continue
		}
		t.boundAfters[i] = true
		// the name in the clause denotes the variable just assigned (another local may share it)
		var own map[string]Val
		if v := st.cells[a]; v != "" {
			own = map[string]Val{as.Var: {T: v, Ty: a.Type().(*types.Pointer).Elem()}}
			// prev: the value the variable held just before this assignment
			if prevVal != "" {
				own["prev"] = Val{T: prevVal, Ty: a.Type().(*types.Pointer).Elem()}
			}
		}
		// other names resolve as at the assignment (several locals of the function may share a name)
		savePos := t.curPos
		if store.Pos().IsValid() {
			t.curPos = store.Pos()
		}
		env := fc.specEnv(st, own)
		t.curPos = savePos
		g, err := env.goal(as.Assert.Expr)
		if err != nil {
			fc.specError(as.Assert, err)
			continue
		}
		fc.oblige(st, "assert", fmt.Sprintf("assert-after-%s%d", as.Var, as.K), g, "ghost assertion: "+as.Assert.Text, token.NoPos, true)
		fc.assume(st, g)
		_ = i
	}
}

func (fc *fnCtx) isParamCell(a *ssa.Alloc) bool {
	for _, p := range fc.fn.Params {
		if p.Name() == a.Comment {
			return true
		}
	}
	return false
}

// loopCalls: some call site inside the loop has the given callee name (as `call f#k` clauses name it)
func loopCalls(li *loopInfo, name string) bool {
	for b := range li.blocks {
		for _, ins := range b.Instrs {
			call, ok := ins.(ssa.CallInstruction)
			if !ok {
				continue
			}
			if siteCalleeName(call.Common()) == name {
				return true
			}
		}
	}
	return false
}

// siteCalleeName: the name under which `call f#k`, calls(f) and callresult(f, k) know a call site
func siteCalleeName(c *ssa.CallCommon) string {
	if c.IsInvoke() {
		return c.Method.Name()
	} else if callee := c.StaticCallee(); callee != nil {
		return callee.Name()
	} else if bi, ok := c.Value.(*ssa.Builtin); ok {
		return bi.Name()
	}
	return dynCalleeName(c.Value)
}

// stableCapture: the variable captured as fv is never assigned after its capture: in the outermost enclosing
// function the only stores to it are whole-variable stores in the entry block (its initialisation from a
// parameter or a first value), no closure stores to it or into it, and no address derived from it is
// passed to a call, stored, sliced or returned. Such a variable is read-only for the lifetime of the closures.
func stableCapture(fv *ssa.FreeVar) bool {
	// resolve to the root alloc
	var root ssa.Value = fv
	for {
		f, ok := root.(*ssa.FreeVar)
		if !ok {
			break
		}
		fn := f.Parent()
		idx := -1
		for i, x := range fn.FreeVars {
			if x == f {
				idx = i
			}
		}
		parent := fn.Parent()
		if idx < 0 || parent == nil {
			return false
		}
		var binding ssa.Value
		for _, b := range parent.Blocks {
			for _, ins := range b.Instrs {
				if mc, ok := ins.(*ssa.MakeClosure); ok && mc.Fn == fn && idx < len(mc.Bindings) {
					if binding != nil && binding != mc.Bindings[idx] {
						return false
					}
					binding = mc.Bindings[idx]
				}
			}
		}
		if binding == nil {
			return false
		}
		root = binding
	}
	alloc, ok := root.(*ssa.Alloc)
	if !ok {
		return false
	}
	var readOnly func(v ssa.Value, whole bool, inRoot bool) bool
	var closureUses func(fn *ssa.Function, bound ssa.Value) bool
	readOnly = func(v ssa.Value, whole bool, inRoot bool) bool {
		refs := v.Referrers()
		if refs == nil {
			return false
		}
		for _, r := range *refs {
			switch x := r.(type) {
			case *ssa.DebugRef:
			case *ssa.UnOp:
				if x.Op != token.MUL {
					return false
				}
			case *ssa.FieldAddr:
				if !readOnly(x, false, inRoot) {
					return false
				}
			case *ssa.IndexAddr:
				if !readOnly(x, false, inRoot) {
					return false
				}
			case *ssa.Store:
				if x.Addr != v || !whole || !inRoot || x.Block().Index != 0 {
					return false
				}
			case *ssa.MakeClosure:
				if !whole {
					return false
				}
				for i, b := range x.Bindings {
					if b == v {
						cf := x.Fn.(*ssa.Function)
						if i >= len(cf.FreeVars) || !closureUses(cf, cf.FreeVars[i]) {
							return false
						}
					}
				}
			default:
				return false
			}
		}
		return true
	}
	closureUses = func(fn *ssa.Function, bound ssa.Value) bool {
		return readOnly(bound, true, false)
	}
	return readOnly(alloc, true, true)
}
