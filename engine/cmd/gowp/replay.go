package main

// Replay of a solver counter-model against the real code: the model is projected
// on the function's inputs, turned into Go literals, and a generated in-package
// test (injected with -overlay, nothing is written to /repo) calls the real
// function under recover and evaluates the compiled postcondition natively.

import (
	"bytes"
	"context"
	"encoding/json"
	"fmt"
	"go/ast"
	"go/token"
	"go/types"
	"math/big"
	"os"
	"os/exec"
	"path/filepath"
	"sort"
	"strconv"
	"strings"
	"time"

	"golang.org/x/tools/go/ssa"
)

type replayResult struct {
	Confirmed bool              `json:"confirmed"`
	Inputs    map[string]string `json:"inputs,omitempty"`
	Test      string            `json:"test,omitempty"`
	PkgDir    string            `json:"pkg_dir,omitempty"`
	Output    string            `json:"output,omitempty"`
	Note      string            `json:"note,omitempty"`
}

// ---------------------------------------------------------------------------
// s-expressions (solver output)

type sx struct {
	atom string
	list []*sx
}

func parseSx(s string) []*sx {
	var out []*sx
	i := 0
	var parse func() *sx
	skip := func() {
		for i < len(s) && (s[i] == ' ' || s[i] == '\n' || s[i] == '\t' || s[i] == '\r') {
			i++
		}
	}
	parse = func() *sx {
		skip()
		if i >= len(s) {
			return nil
		}
		if s[i] == '(' {
			i++
			n := &sx{list: []*sx{}}
			for {
				skip()
				if i >= len(s) {
					return n
				}
				if s[i] == ')' {
					i++
					return n
				}
				c := parse()
				if c == nil {
					return n
				}
				n.list = append(n.list, c)
			}
		}
		if s[i] == '"' {
			j := i + 1
			for j < len(s) && s[j] != '"' {
				j++
			}
			a := s[i:min(j+1, len(s))]
			i = min(j+1, len(s))
			return &sx{atom: a}
		}
		if s[i] == '|' {
			j := i + 1
			for j < len(s) && s[j] != '|' {
				j++
			}
			a := s[i:min(j+1, len(s))]
			i = min(j+1, len(s))
			return &sx{atom: a}
		}
		j := i
		for j < len(s) && s[j] != ' ' && s[j] != '\n' && s[j] != '\t' && s[j] != '(' && s[j] != ')' {
			j++
		}
		a := s[i:j]
		i = j
		return &sx{atom: a}
	}
	for {
		skip()
		if i >= len(s) {
			break
		}
		if s[i] == ')' {
			i++
			continue
		}
		n := parse()
		if n == nil {
			break
		}
		out = append(out, n)
	}
	return out
}

func (n *sx) String() string {
	if n.list == nil {
		return n.atom
	}
	parts := make([]string, len(n.list))
	for i, c := range n.list {
		parts[i] = c.String()
	}
	return "(" + strings.Join(parts, " ") + ")"
}

// numeric value of a model term (Int or Real) as a rational.
func sxRat(n *sx) (*big.Rat, bool) {
	if n.list == nil {
		a := strings.TrimSuffix(n.atom, "?")
		r, ok := new(big.Rat).SetString(a)
		return r, ok
	}
	if len(n.list) == 2 && n.list[0].atom == "-" {
		r, ok := sxRat(n.list[1])
		if !ok {
			return nil, false
		}
		return r.Neg(r), true
	}
	if len(n.list) == 3 && n.list[0].atom == "/" {
		a, ok1 := sxRat(n.list[1])
		b, ok2 := sxRat(n.list[2])
		if !ok1 || !ok2 || b.Sign() == 0 {
			return nil, false
		}
		return a.Quo(a, b), true
	}
	if len(n.list) == 2 && n.list[0].atom == "to_real" {
		return sxRat(n.list[1])
	}
	return nil, false
}

// ---------------------------------------------------------------------------
// model access

type modelQuery struct {
	eng    *Engine
	o      *Obligation
	script string
	cache  map[string]*sx
	extra  string // size constraints of the small-model search
	failed bool
	note   string
	// the whole model search of one obligation is bounded: a replay is a courtesy, the verdict
	// (VIOLATION ... no-failing-input-found) does not depend on it
	deadline time.Time
}

func (m *modelQuery) solverCmd(file string) []string {
	switch m.o.Res.Solver {
	case "cvc5":
		return []string{"cvc5", "--tlimit=20000", "--produce-models", file}
	case "z3":
		return []string{"z3", "-T:20", "-memory:4000", file}
	default:
		return []string{"z3-new", "-T:20", "-memory:4000", file}
	}
}

// preferSmall looks for a counter-model with small inputs (short slices and strings,
// small integers): such models reproduce on the real code without truncation.
func (m *modelQuery) preferSmall(fc *fnCtx, fn *ssa.Function) {
	names := paramNames(fn)
	tiers := [][3]int64{{3, 4, 8}, {8, 12, 1 << 20}}
	for _, tier := range tiers {
		var cons []string
		var add func(term string, t types.Type, depth int)
		add = func(term string, t types.Type, depth int) {
			switch u := t.Underlying().(type) {
			case *types.Slice:
				cons = append(cons, fmt.Sprintf("(assert (<= (sl.len %s) %d))", term, tier[0]))
			case *types.Basic:
				switch {
				case u.Info()&types.IsString != 0:
					cons = append(cons, fmt.Sprintf("(assert (<= (s.len %s) %d))", term, tier[1]))
				case u.Info()&types.IsInteger != 0:
					cons = append(cons, fmt.Sprintf("(assert (and (<= (- %d) %s) (<= %s %d)))", tier[2], term, term, tier[2]))
				}
			case *types.Struct:
				if depth > 1 {
					return
				}
				ss := fc.S().structOf(t)
				for i, f := range ss.fields {
					add("("+f+" "+term+")", ss.ftypes[i], depth+1)
				}
			}
		}
		for i, p := range fn.Params {
			v, ok := fc.params[names[i]]
			if !ok {
				continue
			}
			add(v.T, p.Type(), 0)
			// one level through pointers: the fields of the pointed-to struct in the entry heap
			if pt, isPtr := p.Type().Underlying().(*types.Pointer); isPtr {
				if ss := fc.S().structOf(pt.Elem()); ss != nil {
					entry := &State{heapBase: fc.entry.heapBase, heap: fc.entry.heap}
					for fi := range ss.fields {
						hn, hs := fc.heapFieldName(pt.Elem(), fi)
						add(fmt.Sprintf("(select %s %s)", fc.heapGet(entry, hn, hs), v.T), ss.ftypes[fi], 1)
					}
				}
			}
		}
		if len(cons) == 0 {
			return
		}
		// re-slice the definitions so that every symbol of the size constraints is declared
		extra := strings.Join(cons, "\n")
		body, _ := m.o.fc.defs.Slice(m.o.PC, m.o.Goal, extra)
		tail := fmt.Sprintf("(assert %s)\n(assert (not %s))\n", m.o.PC, m.o.Goal)
		script := m.eng.sorts.Prelude(body+tail+extra) + body + tail + extra + "\n(check-sat)\n"
		file := filepath.Join(m.eng.tmpdir, "replay-small-"+sanitize(m.o.Name)+".smt2")
		os.WriteFile(file, []byte(script), 0o644)
		argv := m.solverCmd(file)
		ctx, cancel := context.WithTimeout(context.Background(), 25*time.Second)
		out, _ := exec.CommandContext(ctx, argv[0], argv[1:]...).CombinedOutput()
		cancel()
		for _, ln := range strings.Split(string(out), "\n") {
			ln = strings.TrimSpace(ln)
			if ln == "" || strings.HasPrefix(ln, "WARNING") {
				continue
			}
			if ln == "sat" {
				m.script = script
				m.extra = extra
				return
			}
			break
		}
	}
}

// get evaluates a batch of terms in the counter-model.
func (m *modelQuery) get(terms []string) {
	var need []string
	for _, t := range terms {
		if _, ok := m.cache[t]; !ok {
			need = append(need, t)
		}
	}
	if len(need) == 0 || m.failed {
		return
	}
	if !m.deadline.IsZero() && time.Now().After(m.deadline) {
		m.failed = true
		m.note = "model search abandoned after 90 s"
		return
	}
	var b strings.Builder
	// slice the definitions again so that every queried symbol is declared
	{
		all := strings.Join(need, " ")
		body, _ := m.o.fc.defs.Slice(m.o.PC, m.o.Goal, m.extra, all)
		tail := fmt.Sprintf("(assert %s)\n(assert (not %s))\n", m.o.PC, m.o.Goal)
		b.WriteString(m.eng.sorts.Prelude(body + tail + m.extra + all))
		b.WriteString(body)
		b.WriteString(tail)
		b.WriteString(m.extra)
		b.WriteString("\n(check-sat)\n")
	}
	for _, t := range need {
		fmt.Fprintf(&b, "(get-value (%s))\n", t)
	}
	file := filepath.Join(m.eng.tmpdir, "replay-"+sanitize(m.o.Name)+".smt2")
	os.WriteFile(file, []byte(b.String()), 0o644)
	argv := m.solverCmd(file)
	ctx, cancel := context.WithTimeout(context.Background(), 30*time.Second)
	defer cancel()
	out, _ := exec.CommandContext(ctx, argv[0], argv[1:]...).CombinedOutput()
	txt := string(out)
	// drop warnings; first token must be sat
	var lines []string
	for _, ln := range strings.Split(txt, "\n") {
		if strings.HasPrefix(strings.TrimSpace(ln), "WARNING") {
			continue
		}
		lines = append(lines, ln)
	}
	items := parseSx(strings.Join(lines, "\n"))
	if len(items) == 0 || items[0].atom != "sat" {
		m.failed = true
		m.note = "model query did not return sat again: " + firstLines(txt, 2)
		return
	}
	items = items[1:]
	for i, t := range need {
		if i >= len(items) {
			break
		}
		it := items[i]
		// ((term value))
		if it.list != nil && len(it.list) == 1 && it.list[0].list != nil && len(it.list[0].list) == 2 {
			m.cache[t] = it.list[0].list[1]
		}
	}
}

func (m *modelQuery) val(t string) *sx {
	if v, ok := m.cache[t]; ok {
		return v
	}
	m.get([]string{t})
	return m.cache[t]
}

func (m *modelQuery) intVal(t string) (int64, bool) {
	v := m.val(t)
	if v == nil {
		return 0, false
	}
	r, ok := sxRat(v)
	if !ok || !r.IsInt() || !r.Num().IsInt64() {
		return 0, false
	}
	return r.Num().Int64(), true
}

// ---------------------------------------------------------------------------
// Go literal construction

type litBuilder struct {
	m       *modelQuery
	fc      *fnCtx
	pkg     *types.Package
	imports map[string]string // path -> name
	approx  []string
	ptrVars map[int64]string
	decls   []string
	nvar    int
}

func (lb *litBuilder) typeExpr(t types.Type) string {
	return types.TypeString(t, func(p *types.Package) string {
		if p == lb.pkg {
			return ""
		}
		lb.imports[p.Path()] = p.Name()
		return p.Name()
	})
}

func exportedOrLocal(t types.Type, pkg *types.Package) bool {
	ok := true
	var visit func(t types.Type)
	visit = func(t types.Type) {
		switch u := t.(type) {
		case *types.Named:
			if u.Obj().Pkg() != nil && u.Obj().Pkg() != pkg && !u.Obj().Exported() {
				ok = false
			}
		case *types.Pointer:
			visit(u.Elem())
		case *types.Slice:
			visit(u.Elem())
		case *types.Array:
			visit(u.Elem())
		}
	}
	visit(t)
	return ok
}

func (lb *litBuilder) heapEntry(name, sort string) string {
	st := &State{heapBase: lb.fc.entry.heapBase, heap: lb.fc.entry.heap}
	return lb.fc.heapGet(st, name, sort)
}

const maxStrLen = 24
const maxSliceLen = 8

// lit builds a Go expression for the model value of SMT term `term` of Go type t.
func (lb *litBuilder) lit(term string, t types.Type, depth int) string {
	S := lb.fc.S()
	if depth > 7 {
		lb.approx = append(lb.approx, "depth limit at "+lb.typeExpr(t))
		return lb.zero(t)
	}
	switch u := t.Underlying().(type) {
	case *types.Basic:
		switch {
		case u.Info()&types.IsBoolean != 0:
			v := lb.m.val(term)
			if v != nil && v.atom == "true" {
				return lb.conv(t, "true")
			}
			return lb.conv(t, "false")
		case u.Info()&types.IsInteger != 0:
			n, ok := lb.m.intVal(term)
			if !ok {
				lb.approx = append(lb.approx, "non-integer model value for "+term)
			}
			return lb.conv(t, strconv.FormatInt(n, 10))
		case u.Info()&types.IsFloat != 0:
			v := lb.m.val(term)
			if v == nil {
				return lb.conv(t, "0")
			}
			r, ok := sxRat(v)
			if !ok {
				lb.approx = append(lb.approx, "irrational/unknown real model value "+v.String())
				return lb.conv(t, "0")
			}
			f, _ := r.Float64()
			return lb.conv(t, strconv.FormatFloat(f, 'g', -1, 64))
		case u.Info()&types.IsString != 0:
			n, _ := lb.m.intVal("(s.len " + term + ")")
			if n > maxStrLen {
				lb.approx = append(lb.approx, fmt.Sprintf("string of length %d truncated to %d", n, maxStrLen))
				n = maxStrLen
			}
			var terms []string
			for i := int64(0); i < n; i++ {
				terms = append(terms, fmt.Sprintf("(s.at %s %d)", term, i))
			}
			lb.m.get(terms)
			bs := make([]byte, 0, n)
			for _, tt := range terms {
				c, _ := lb.m.intVal(tt)
				bs = append(bs, byte(c))
			}
			return lb.conv(t, strconv.Quote(string(bs)))
		}
	case *types.Struct:
		if !exportedOrLocal(t, lb.pkg) {
			lb.approx = append(lb.approx, "unexported foreign type "+typeKey(t))
			return lb.zero(t)
		}
		ss := S.structOf(t)
		var parts []string
		for i, f := range ss.fields {
			fld := u.Field(i)
			if fld.Pkg() != nil && fld.Pkg() != lb.pkg && !fld.Exported() {
				continue // cannot set; left zero
			}
			v := lb.lit("("+f+" "+term+")", fld.Type(), depth+1)
			if v == lb.zero(fld.Type()) {
				continue
			}
			parts = append(parts, fld.Name()+": "+v)
		}
		return lb.typeExpr(t) + "{" + strings.Join(parts, ", ") + "}"
	case *types.Pointer:
		p, _ := lb.m.intVal(term)
		if p == 0 {
			return "nil"
		}
		if v, ok := lb.ptrVars[p]; ok {
			return v
		}
		et := u.Elem()
		if !exportedOrLocal(et, lb.pkg) {
			lb.approx = append(lb.approx, "pointer to unexported foreign type "+typeKey(et))
			return "nil"
		}
		name := fmt.Sprintf("p%d", len(lb.ptrVars))
		lb.ptrVars[p] = name
		var init string
		if ss := S.structOf(et); ss != nil {
			st := et.Underlying().(*types.Struct)
			var parts []string
			for i := range ss.fields {
				fld := st.Field(i)
				if fld.Pkg() != nil && fld.Pkg() != lb.pkg && !fld.Exported() {
					continue
				}
				hn, hs := lb.fc.heapFieldName(et, i)
				h := lb.heapEntry(hn, hs)
				v := lb.lit(fmt.Sprintf("(select %s %d)", h, p), fld.Type(), depth+1)
				if v == lb.zero(fld.Type()) {
					continue
				}
				parts = append(parts, fld.Name()+": "+v)
			}
			init = "&" + lb.typeExpr(et) + "{" + strings.Join(parts, ", ") + "}"
		} else {
			hn, hs := lb.fc.heapPtrName(et)
			h := lb.heapEntry(hn, hs)
			lb.nvar++
			tmp := fmt.Sprintf("pv%d", lb.nvar)
			lb.decls = append(lb.decls, fmt.Sprintf("%s := %s", tmp, lb.lit(fmt.Sprintf("(select %s %d)", h, p), et, depth+1)))
			init = "&" + tmp
		}
		lb.decls = append(lb.decls, fmt.Sprintf("%s := %s", name, init))
		return name
	case *types.Slice:
		base, _ := lb.m.intVal("(sl.base " + term + ")")
		n, _ := lb.m.intVal("(sl.len " + term + ")")
		if base == 0 {
			return lb.zero(t)
		}
		if n > maxSliceLen {
			lb.approx = append(lb.approx, fmt.Sprintf("slice of length %d truncated to %d", n, maxSliceLen))
			n = maxSliceLen
		}
		off, _ := lb.m.intVal("(sl.off " + term + ")")
		hn, hs := lb.fc.heapElemName(u.Elem())
		h := lb.heapEntry(hn, hs)
		var parts []string
		for i := int64(0); i < n; i++ {
			parts = append(parts, lb.lit(fmt.Sprintf("(select (select %s %d) %d)", h, base, off+i), u.Elem(), depth+1))
		}
		return lb.typeExpr(t) + "{" + strings.Join(parts, ", ") + "}"
	case *types.Array:
		var parts []string
		for i := int64(0); i < u.Len() && i < 16; i++ {
			parts = append(parts, lb.lit(fmt.Sprintf("(select %s %d)", term, i), u.Elem(), depth+1))
		}
		return lb.typeExpr(t) + "{" + strings.Join(parts, ", ") + "}"
	case *types.Interface:
		tag, _ := lb.m.intVal("(if.tag " + term + ")")
		if tag == 0 {
			return "nil"
		}
		ct := S.tagType(int(tag))
		if ct == nil {
			lb.approx = append(lb.approx, fmt.Sprintf("interface value with unknown dynamic type tag %d", tag))
			return "nil"
		}
		if named, ok := ct.(*types.Named); ok && named.Obj().Pkg() != nil && named.Obj().Pkg().Path() == modulePath+"/css/properties" && named.Obj().Name() == "special" {
			lb.imports[named.Obj().Pkg().Path()] = "properties"
			return "properties.AutoF"
		}
		if !exportedOrLocal(ct, lb.pkg) {
			lb.approx = append(lb.approx, "interface holding unexported foreign type "+typeKey(ct))
			return "nil"
		}
		var inner string
		if pointerLike(ct) {
			inner = lb.lit("(if.val "+term+")", ct, depth+1)
		} else {
			_, unbox := S.Box(ct)
			inner = lb.lit("("+unbox+" (if.val "+term+"))", ct, depth+1)
		}
		return lb.typeExpr(t) + "(" + inner + ")"
	}
	lb.approx = append(lb.approx, "unsupported input type "+typeKey(t))
	return lb.zero(t)
}

func (lb *litBuilder) conv(t types.Type, lit string) string {
	if _, ok := t.(*types.Basic); ok {
		b := t.(*types.Basic)
		switch b.Kind() {
		case types.Int, types.String, types.Bool, types.Float64, types.UntypedInt, types.UntypedFloat, types.UntypedString, types.UntypedBool:
			if b.Kind() == types.Float64 && !strings.ContainsAny(lit, ".e") {
				return lit + ".0"
			}
			return lit
		}
	}
	return lb.typeExpr(t) + "(" + lit + ")"
}

func (lb *litBuilder) zero(t types.Type) string {
	switch u := t.Underlying().(type) {
	case *types.Basic:
		switch {
		case u.Info()&types.IsBoolean != 0:
			return lb.conv(t, "false")
		case u.Info()&types.IsString != 0:
			return lb.conv(t, `""`)
		default:
			return lb.conv(t, "0")
		}
	case *types.Struct, *types.Array:
		if !exportedOrLocal(t, lb.pkg) {
			return "*new(" + lb.typeExpr(t) + ")"
		}
		return lb.typeExpr(t) + "{}"
	}
	return "nil"
}

// ---------------------------------------------------------------------------
// specification -> Go source

type goSpec struct {
	eng   *Engine
	lets  map[string]ast.Expr
	olds  []string // hoisted old(...) expressions, in Go
	bound map[string]string
	fail  string
	pkg   *ssa.Package
	names map[string]string // spec identifier -> Go variable
}

func (g *goSpec) expr(x ast.Expr) string {
	switch n := x.(type) {
	case *ast.ParenExpr:
		return "(" + g.expr(n.X) + ")"
	case *ast.BasicLit:
		return n.Value
	case *ast.Ident:
		if v, ok := g.bound[n.Name]; ok {
			return v
		}
		if ex, ok := g.lets[n.Name]; ok {
			return "(" + g.expr(ex) + ")"
		}
		if v, ok := g.names[n.Name]; ok {
			return v
		}
		return n.Name
	case *ast.SelectorExpr:
		return g.expr(n.X) + "." + n.Sel.Name
	case *ast.StarExpr:
		return "(*" + g.expr(n.X) + ")"
	case *ast.UnaryExpr:
		return n.Op.String() + g.expr(n.X)
	case *ast.BinaryExpr:
		a, b := g.expr(n.X), g.expr(n.Y)
		switch n.Op {
		case token.EQL:
			return "verifEq(" + a + ", " + b + ")"
		case token.NEQ:
			return "!verifEq(" + a + ", " + b + ")"
		}
		return "(" + a + " " + n.Op.String() + " " + b + ")"
	case *ast.IndexExpr:
		return g.expr(n.X) + "[" + g.expr(n.Index) + "]"
	case *ast.SliceExpr:
		s := g.expr(n.X) + "["
		if n.Low != nil {
			s += g.expr(n.Low)
		}
		s += ":"
		if n.High != nil {
			s += g.expr(n.High)
		}
		return s + "]"
	case *ast.CompositeLit:
		var parts []string
		for _, e := range n.Elts {
			if kv, ok := e.(*ast.KeyValueExpr); ok {
				parts = append(parts, g.expr(kv.Key)+": "+g.expr(kv.Value))
			} else {
				parts = append(parts, g.expr(e))
			}
		}
		return g.typeSrc(n.Type) + "{" + strings.Join(parts, ", ") + "}"
	case *ast.TypeAssertExpr:
		return g.expr(n.X) + ".(" + g.typeSrc(n.Type) + ")"
	case *ast.CallExpr:
		return g.call(n)
	}
	g.fail = fmt.Sprintf("unsupported expression %T", x)
	return "false"
}

func (g *goSpec) typeSrc(x ast.Expr) string {
	switch n := x.(type) {
	case *ast.Ident:
		return n.Name
	case *ast.SelectorExpr:
		return g.typeSrc(n.X) + "." + n.Sel.Name
	case *ast.StarExpr:
		return "*" + g.typeSrc(n.X)
	case *ast.ArrayType:
		if n.Len == nil {
			return "[]" + g.typeSrc(n.Elt)
		}
		return "[" + g.expr(n.Len) + "]" + g.typeSrc(n.Elt)
	case *ast.ParenExpr:
		return "(" + g.typeSrc(n.X) + ")"
	}
	g.fail = "unsupported type expression"
	return "int"
}

func (g *goSpec) call(n *ast.CallExpr) string {
	if id, ok := n.Fun.(*ast.Ident); ok {
		switch id.Name {
		case "$imp":
			return "(!(" + g.expr(n.Args[0]) + ") || (" + g.expr(n.Args[1]) + "))"
		case "$iff":
			return "((" + g.expr(n.Args[0]) + ") == (" + g.expr(n.Args[1]) + "))"
		case "old":
			// hoisted: evaluated before the call with the same inputs
			inner := g.expr(n.Args[0])
			g.olds = append(g.olds, inner)
			return fmt.Sprintf("verifOld%d", len(g.olds)-1)
		case "forall", "exists":
			iv := n.Args[0].(*ast.Ident).Name
			saved := g.bound[iv]
			g.bound[iv] = iv
			body := g.expr(n.Args[3])
			if saved == "" {
				delete(g.bound, iv)
			} else {
				g.bound[iv] = saved
			}
			fn := "verifForall"
			if id.Name == "exists" {
				fn = "verifExists"
			}
			return fmt.Sprintf("%s(int(%s), int(%s), func(%s int) bool { return %s })", fn, g.expr(n.Args[1]), g.expr(n.Args[2]), iv, body)
		case "forallR", "forallI", "existsI", "existsR":
			// bound variables take the values of the skolem constants of the counter-model
			for _, a := range n.Args[:len(n.Args)-1] {
				iv := a.(*ast.Ident).Name
				if _, ok := g.bound[iv]; !ok {
					g.fail = "no model value for quantified variable " + iv
					return "false"
				}
			}
			return "(" + g.expr(n.Args[len(n.Args)-1]) + ")"
		case "ite":
			return fmt.Sprintf("verifIte(%s, %s, %s)", g.expr(n.Args[0]), g.expr(n.Args[1]), g.expr(n.Args[2]))
		case "in":
			var alts []string
			x := g.expr(n.Args[0])
			for _, a := range n.Args[1:] {
				alts = append(alts, "verifEq("+x+", "+g.expr(a)+")")
			}
			return "(" + strings.Join(alts, " || ") + ")"
		case "tan", "sin", "cos", "sqrt":
			f := map[string]string{"tan": "Tan", "sin": "Sin", "cos": "Cos", "sqrt": "Sqrt"}[id.Name]
			return fmt.Sprintf("verifMath(math.%s, %s)", f, g.expr(n.Args[0]))
		case "real":
			return "float64(" + g.expr(n.Args[0]) + ")"
		case "fresh", "alloc":
			return "true"
		case "typeIs":
			return fmt.Sprintf("func() bool { _, ok := any(%s).(%s); return ok }()", g.expr(n.Args[0]), g.typeSrc(n.Args[1]))
		}
	}
	var args []string
	for _, a := range n.Args {
		args = append(args, g.expr(a))
	}
	return g.expr(n.Fun) + "(" + strings.Join(args, ", ") + ")"
}

const replayHelpers = `
func verifForall(lo, hi int, p func(int) bool) bool {
	for i := lo; i < hi; i++ {
		if !p(i) {
			return false
		}
	}
	return true
}

func verifExists(lo, hi int, p func(int) bool) bool {
	for i := lo; i < hi; i++ {
		if p(i) {
			return true
		}
	}
	return false
}

func verifIte[T any](c bool, a, b T) T {
	if c {
		return a
	}
	return b
}

func verifMath[T ~float32 | ~float64](f func(float64) float64, x T) T { return T(f(float64(x))) }

func verifNum(v reflect.Value) (float64, bool) {
	switch v.Kind() {
	case reflect.Int, reflect.Int8, reflect.Int16, reflect.Int32, reflect.Int64:
		return float64(v.Int()), true
	case reflect.Uint, reflect.Uint8, reflect.Uint16, reflect.Uint32, reflect.Uint64:
		return float64(v.Uint()), true
	case reflect.Float32, reflect.Float64:
		return v.Float(), true
	}
	return 0, false
}

// verifEq is == with a relative tolerance on floating-point components (the proof
// treats floats as reals; the replay must not report rounding noise).
func verifEq(a, b any) bool {
	if a == nil || b == nil {
		return verifIsNil(a) && verifIsNil(b)
	}
	return verifEqV(reflect.ValueOf(a), reflect.ValueOf(b))
}

func verifIsNil(a any) bool {
	if a == nil {
		return true
	}
	v := reflect.ValueOf(a)
	switch v.Kind() {
	case reflect.Ptr, reflect.Map, reflect.Slice, reflect.Interface, reflect.Func, reflect.Chan:
		return v.IsNil()
	}
	return false
}

func verifEqV(a, b reflect.Value) bool {
	if x, ok := verifNum(a); ok {
		if y, ok := verifNum(b); ok {
			if a.Kind() == reflect.Float32 || a.Kind() == reflect.Float64 || b.Kind() == reflect.Float32 || b.Kind() == reflect.Float64 {
				d := math.Abs(x - y)
				return d <= 1e-4*math.Max(1, math.Max(math.Abs(x), math.Abs(y)))
			}
			return x == y
		}
	}
	if a.Kind() == reflect.Interface || b.Kind() == reflect.Interface {
		if a.Kind() == reflect.Interface {
			if a.IsNil() {
				return verifIsNil(b.Interface())
			}
			a = a.Elem()
		}
		if b.Kind() == reflect.Interface {
			if b.IsNil() {
				return false
			}
			b = b.Elem()
		}
		return verifEqV(a, b)
	}
	if a.Type() != b.Type() {
		if a.Type().ConvertibleTo(b.Type()) {
			return verifEqV(a.Convert(b.Type()), b)
		}
		return false
	}
	switch a.Kind() {
	case reflect.Struct:
		for i := 0; i < a.NumField(); i++ {
			if !verifEqV(a.Field(i), b.Field(i)) {
				return false
			}
		}
		return true
	case reflect.Array:
		for i := 0; i < a.Len(); i++ {
			if !verifEqV(a.Index(i), b.Index(i)) {
				return false
			}
		}
		return true
	case reflect.String:
		return a.String() == b.String()
	case reflect.Bool:
		return a.Bool() == b.Bool()
	case reflect.Ptr, reflect.Map, reflect.Func, reflect.Chan, reflect.UnsafePointer:
		return a.Pointer() == b.Pointer()
	case reflect.Slice:
		if a.IsNil() || b.IsNil() {
			return a.IsNil() == b.IsNil()
		}
		return a.Pointer() == b.Pointer() && a.Len() == b.Len()
	}
	return false
}
`

// ---------------------------------------------------------------------------
// replay of one obligation

func (eng *Engine) replay(o *Obligation) (res replayResult) {
	defer func() {
		if r := recover(); r != nil {
			res = replayResult{Note: fmt.Sprintf("replay generator failed: %v", r)}
		}
	}()
	fc := o.fc
	if fc == nil || fc.fn == nil || fc.lemmaName != "" {
		return replayResult{Note: "lemma obligations have no code to replay against"}
	}
	fn := fc.fn
	if fn.Parent() != nil {
		return replayResult{Note: "anonymous functions cannot be called from a test"}
	}
	m := &modelQuery{eng: eng, o: o, script: o.Script, cache: map[string]*sx{}, deadline: time.Now().Add(90 * time.Second)}
	m.preferSmall(fc, fn)
	lb := &litBuilder{m: m, fc: fc, pkg: fn.Pkg.Pkg, imports: map[string]string{}, ptrVars: map[int64]string{}}
	names := paramNames(fn)
	var decl []string
	inputs := map[string]string{}
	goNames := map[string]string{}
	var argNames []string
	for i, p := range fn.Params {
		v := fc.params[names[i]]
		lit := lb.lit(v.T, p.Type(), 0)
		gn := "in_" + sanitize(names[i])
		decl = append(decl, lb.decls...)
		lb.decls = nil
		decl = append(decl, fmt.Sprintf("var %s %s = %s", gn, lb.typeExpr(p.Type()), lit))
		inputs[names[i]] = lit
		goNames[names[i]] = gn
		argNames = append(argNames, gn)
	}
	if m.failed {
		return replayResult{Note: m.note}
	}
	// skolem constants of the goal
	bound := map[string]string{}
	for _, sk := range o.Skolems {
		lit := lb.lit(sk.Term, sk.Ty, 0)
		gn := "sk_" + sanitize(sk.Name)
		decl = append(decl, fmt.Sprintf("const %s = %s", gn, lit))
		bound[sk.Name] = gn
		inputs["∀"+sk.Name] = lit
	}
	// call expression
	sig := fn.Signature
	var call string
	args := argNames
	if sig.Recv() != nil {
		call = "(" + args[0] + ")." + fn.Name()
		args = args[1:]
	} else {
		call = fn.Name()
	}
	if sig.Variadic() && len(args) > 0 {
		args[len(args)-1] += "..."
	}
	call += "(" + strings.Join(args, ", ") + ")"
	rn := resultNames(sig)
	var resVars []string
	for i := range rn {
		resVars = append(resVars, fmt.Sprintf("res%d", i))
	}
	// postcondition (only for obligations stated at the function boundary)
	var postSrc string
	gs := &goSpec{eng: eng, lets: letsOf(fc.contract), bound: bound, pkg: fn.Package(), names: map[string]string{}}
	for k, v := range goNames {
		gs.names[k] = v
	}
	for i, n := range rn {
		gs.names[n] = resVars[i]
		gs.names[fmt.Sprintf("result%d", i)] = resVars[i]
	}
	if len(rn) == 1 {
		gs.names["result"] = resVars[0]
	}
	if o.Kind == "ensures" && o.Clause != nil {
		postSrc = gs.expr(o.Clause)
		if gs.fail != "" {
			postSrc = ""
		}
	}
	// imports used by the spec: the package's own import names are available through its files;
	// we re-import what the contract file imports
	imports := map[string]string{"fmt": "fmt", "testing": "testing", "reflect": "reflect", "math": "math"}
	for p, n := range lb.imports {
		imports[p] = n
	}
	if postSrc != "" {
		for p, n := range eng.contractFileImports(fn.Package()) {
			if _, ok := imports[p]; !ok {
				imports[p] = n
			}
		}
	}
	var src bytes.Buffer
	fmt.Fprintf(&src, "//go:build verif\n\npackage %s\n\nimport (\n", fn.Pkg.Pkg.Name())
	var ips []string
	for p := range imports {
		ips = append(ips, p)
	}
	sort.Strings(ips)
	for _, p := range ips {
		fmt.Fprintf(&src, "\t%s %q\n", imports[p], p)
	}
	fmt.Fprintf(&src, ")\n\nvar _ = reflect.TypeOf\nvar _ = math.Abs\n")
	for _, p := range ips {
		if p == "fmt" || p == "testing" || p == "reflect" || p == "math" {
			continue
		}
		// keep imports used even if the literal did not need them
		fmt.Fprintf(&src, "var _ = %s.%s\n", imports[p], eng.anyExported(p))
	}
	src.WriteString(replayHelpers)
	fmt.Fprintf(&src, "\nfunc TestVerifReplay(t *testing.T) {\n")
	for _, d := range decl {
		fmt.Fprintf(&src, "\t%s\n", d)
	}
	for _, a := range argNames {
		fmt.Fprintf(&src, "\t_ = %s\n", strings.TrimSuffix(a, "..."))
	}

	fmt.Fprintf(&src, "\tfunc() {\n\t\tdefer func() {\n\t\t\tif r := recover(); r != nil {\n\t\t\t\tfmt.Printf(\"VERIF-REPLAY panic: %%v\\n\", r)\n\t\t\t}\n\t\t}()\n")
	for i, oe := range gs.olds {
		fmt.Fprintf(&src, "\t\tverifOld%d := %s\n\t\t_ = verifOld%d\n", i, oe, i)
	}
	if len(resVars) > 0 {
		fmt.Fprintf(&src, "\t\t%s := %s\n", strings.Join(resVars, ", "), call)
		for _, r := range resVars {
			fmt.Fprintf(&src, "\t\t_ = %s\n", r)
		}
		fmt.Fprintf(&src, "\t\tfmt.Printf(\"VERIF-REPLAY returned: %%#v\\n\", []any{%s})\n", strings.Join(resVars, ", "))
	} else {
		fmt.Fprintf(&src, "\t\t%s\n\t\tfmt.Println(\"VERIF-REPLAY returned\")\n", call)
	}
	if postSrc != "" {
		fmt.Fprintf(&src, "\t\tfmt.Printf(\"VERIF-REPLAY post: %%v\\n\", %s)\n", postSrc)
	}
	fmt.Fprintf(&src, "\t}()\n}\n")

	res = replayResult{Inputs: inputs, Test: src.String()}
	if len(lb.approx) > 0 {
		res.Note = "inputs approximated: " + strings.Join(lb.approx, "; ")
	}
	pos := eng.fset.Position(fn.Pos())
	res.PkgDir = filepath.Dir(pos.Filename)
	out, err := eng.runReplayTest(res.PkgDir, res.Test)
	res.Output = out
	if err != nil && !strings.Contains(out, "VERIF-REPLAY") {
		res.Note += " | replay test did not run: " + firstLines(out, 6)
		return res
	}
	if len(lb.approx) > 0 {
		// the inputs handed to the real code are not the model's: nothing can be concluded
		res.Note += " | replay inconclusive (inputs approximated)"
		return res
	}
	switch {
	case strings.Contains(out, "VERIF-REPLAY panic:"):
		// a panic on inputs satisfying the preconditions refutes a function claimed panic-free
		if fc.contract != nil && fc.contract.NoPanic {
			res.Confirmed = true
		} else {
			res.Note += " | the real code panicked, but the function is not claimed panic-free: inconclusive for this obligation"
		}
	case strings.Contains(out, "VERIF-REPLAY post: false"):
		res.Confirmed = true
	}
	return res
}

func (eng *Engine) runReplayTest(pkgDir, test string) (string, error) {
	dir, err := os.MkdirTemp(eng.tmpdir, "rp")
	if err != nil {
		return "", err
	}
	tf := filepath.Join(dir, "zz_verif_replay_test.go")
	os.WriteFile(tf, []byte(test), 0o644)
	repl := map[string]string{filepath.Join(pkgDir, "zz_verif_replay_test.go"): tf}
	// the package's own test files are replaced by empty ones: only the injected test runs, and test
	// set-up that needs resources absent from the sandbox (font caches in html/layout, html/document)
	// cannot abort it. Non-test files are untouched: the code under test is the code of the tree.
	if ents, err := os.ReadDir(pkgDir); err == nil {
		for i, e := range ents {
			n := e.Name()
			if e.IsDir() || !strings.HasSuffix(n, "_test.go") || n == "zz_verif_replay_test.go" {
				continue
			}
			data, err := os.ReadFile(filepath.Join(pkgDir, n))
			if err != nil {
				continue
			}
			pkgClause := ""
			for _, ln := range strings.Split(string(data), "\n") {
				if t := strings.TrimSpace(ln); strings.HasPrefix(t, "package ") {
					pkgClause = strings.Fields(t)[0] + " " + strings.Fields(t)[1]
					break
				}
			}
			if pkgClause == "" {
				continue
			}
			stub := filepath.Join(dir, fmt.Sprintf("stub%d_test.go", i))
			os.WriteFile(stub, []byte(pkgClause+"\n"), 0o644)
			repl[filepath.Join(pkgDir, n)] = stub
		}
	}
	ov := map[string]any{"Replace": repl}
	ovData, _ := json.Marshal(ov)
	ovf := filepath.Join(dir, "overlay.json")
	os.WriteFile(ovf, ovData, 0o644)
	modfile := filepath.Join(eng.tmpdir, "mod", "go.mod")
	if _, err := os.Stat(modfile); err != nil {
		os.MkdirAll(filepath.Dir(modfile), 0o755)
		for _, f := range []string{"go.mod", "go.sum"} {
			data, _ := os.ReadFile(filepath.Join(eng.repo, f))
			os.WriteFile(filepath.Join(filepath.Dir(modfile), f), data, 0o644)
		}
	}
	ctx, cancel := context.WithTimeout(context.Background(), 180*time.Second)
	defer cancel()
	cmd := exec.CommandContext(ctx, "bash", "-c", fmt.Sprintf("ulimit -v 8000000; cd %q && go test -tags verif -modfile=%q -overlay=%q -vet=off -count=1 -v -timeout 60s -run '^TestVerifReplay$' .", pkgDir, modfile, ovf))
	cmd.Env = append(os.Environ(), "GOFLAGS=-mod=mod", "GOPROXY=off", "GOSUMDB=off", "GOTOOLCHAIN=local")
	out, err := cmd.CombinedOutput()
	return truncate(string(out), 8000), err
}

// contractFileImports returns the imports of the package's contract file.
func (eng *Engine) contractFileImports(sp *ssa.Package) map[string]string {
	out := map[string]string{}
	pk := eng.pkgByPath[sp.Pkg.Path()]
	if pk == nil {
		return out
	}
	for i, f := range pk.Syntax {
		if i < len(pk.CompiledGoFiles) && filepath.Base(pk.CompiledGoFiles[i]) == "zz_verif_contracts.go" {
			for _, imp := range f.Imports {
				path := strings.Trim(imp.Path.Value, `"`)
				name := ""
				if imp.Name != nil {
					name = imp.Name.Name
				} else if ip := pk.Imports[path]; ip != nil {
					name = ip.Name
				}
				if name != "" && name != "_" {
					out[path] = name
				}
			}
		}
	}
	return out
}

// anyExported returns the name of some exported member of the package (to keep an import used).
func (eng *Engine) anyExported(path string) string {
	pk := eng.pkgByPath[path]
	if pk == nil || pk.Types == nil {
		return "X"
	}
	names := pk.Types.Scope().Names()
	for _, n := range names {
		obj := pk.Types.Scope().Lookup(n)
		if !obj.Exported() {
			continue
		}
		switch obj.(type) {
		case *types.Func, *types.Var, *types.Const:
			return n
		}
	}
	return "X"
}

// replayFile re-runs the test stored in a replay file against the current tree.
func replayFile(path, repo string) int {
	data, err := os.ReadFile(path)
	if err != nil {
		fmt.Fprintln(os.Stderr, err)
		return 2
	}
	var rp struct {
		Property   string        `json:"property"`
		Obligation string        `json:"obligation"`
		Replay     *replayResult `json:"replay"`
	}
	if err := json.Unmarshal(data, &rp); err != nil {
		fmt.Fprintln(os.Stderr, err)
		return 2
	}
	if rp.Replay == nil || rp.Replay.Test == "" {
		fmt.Printf("replay file %s names obligation %s; it carries no executable counterexample (see solver_output)\n", path, rp.Obligation)
		return 0
	}
	tmp, _ := os.MkdirTemp("", "gowp-replay")
	defer os.RemoveAll(tmp)
	eng := &Engine{repo: repo, tmpdir: tmp}
	out, _ := eng.runReplayTest(rp.Replay.PkgDir, rp.Replay.Test)
	fmt.Println(out)
	if strings.Contains(out, "VERIF-REPLAY panic:") || strings.Contains(out, "VERIF-REPLAY post: false") {
		fmt.Printf("VIOLATION property=%s replay=%s\n", rp.Property, path)
		return 1
	}
	return 0
}

// ---------------------------------------------------------------------------
// bounded stand-ins: exhaustive enumerators written in the contract file, run natively

type boundedResult struct {
	Name     string   `json:"name"`
	Props    []string `json:"-"`
	Cases    int      `json:"cases"`
	Failures []string `json:"failures,omitempty"`
	Error    string   `json:"error,omitempty"`
	Desc     string   `json:"bound"`
	Seconds  float64  `json:"seconds"`
}

func (eng *Engine) runBounded(lt lemmaTarget) boundedResult {
	c := lt.c
	name := strings.Fields(c.Ref)[0]
	res := boundedResult{Name: lt.pkg.Pkg.Name() + "." + name, Props: c.Props, Desc: strings.TrimSpace(strings.TrimPrefix(c.Ref, name))}
	start := time.Now()
	fn := lt.pkg.Func(name)
	if fn == nil {
		res.Error = "enumerator " + name + " not found"
		return res
	}
	test := fmt.Sprintf(`//go:build verif

package %s

import (
	"fmt"
	"testing"
)

func TestVerifReplay(t *testing.T) {
	n, fails := %s()
	fmt.Printf("VERIF-BOUNDED cases=%%d failures=%%d\n", n, len(fails))
	for _, f := range fails {
		fmt.Println("VERIF-BOUNDED-FAIL", f)
	}
}
`, lt.pkg.Pkg.Name(), name)
	dir := filepath.Dir(eng.fset.Position(fn.Pos()).Filename)
	out, err := eng.runReplayTest(dir, test)
	res.Seconds = time.Since(start).Seconds()
	found := false
	for _, ln := range strings.Split(out, "\n") {
		if strings.HasPrefix(ln, "VERIF-BOUNDED cases=") {
			fmt.Sscanf(ln, "VERIF-BOUNDED cases=%d", &res.Cases)
			found = true
		}
		if strings.HasPrefix(ln, "VERIF-BOUNDED-FAIL ") {
			res.Failures = append(res.Failures, strings.TrimPrefix(ln, "VERIF-BOUNDED-FAIL "))
		}
	}
	if !found {
		res.Error = "enumerator did not run: " + firstLines(out, 8)
		if err != nil {
			res.Error += " (" + err.Error() + ")"
		}
	}
	return res
}
