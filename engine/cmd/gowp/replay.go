package main

type replayResult struct {
	Confirmed bool              `json:"confirmed"`
	Inputs    map[string]string `json:"inputs,omitempty"`
	Test      string            `json:"test,omitempty"`
	Output    string            `json:"output,omitempty"`
	Note      string            `json:"note,omitempty"`
}

func (eng *Engine) replay(o *Obligation) replayResult {
	return replayResult{Note: "replay not implemented for this obligation kind"}
}

func replayFile(path, repo string) int { return 0 }
