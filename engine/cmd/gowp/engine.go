package main

// Engine: loading /repo, resolving contracts, verifying functions, running solvers.

import (
	"fmt"
	"go/ast"
	"go/token"
	"go/types"
	"os"
	"path/filepath"
	"regexp"
	"sort"
	"strings"
	"sync"
	"time"

	"golang.org/x/tools/go/packages"
	"golang.org/x/tools/go/ssa"
	"golang.org/x/tools/go/ssa/ssautil"
)

const modulePath = "github.com/benoitkugler/webrender"

type target struct {
	fn *ssa.Function
	c  *Contract
}

type Engine struct {
	repo           string
	verif          string
	fset           *token.FileSet
	prog           *ssa.Program
	tables         map[tableKey]*constTable
	pkgs           []*packages.Package
	pkgByPath      map[string]*packages.Package
	sorts          *Sorts
	contracts      map[*ssa.Function]*Contract
	externByName   map[string]*Contract
	ifaceContracts map[string]*Contract
	typeInvs       map[string][]*TypeInv
	files          []*ContractFile
	targets        []target
	lemmas         []lemmaTarget
	bounded        []lemmaTarget
	structural     []string // contracts that no longer bind
	tmpdir         string
	seed           int
	timeout        int
	loadSecs       float64
	skipUnclaimed  bool
	srcHashes      map[string]string
}

type lemmaTarget struct {
	c   *Contract
	pkg *ssa.Package
}

func (eng *Engine) funcDisplayName(fn *ssa.Function) string {
	s := fn.String()
	if fn.Pkg != nil {
		s = strings.ReplaceAll(s, fn.Pkg.Pkg.Path()+".", fn.Pkg.Pkg.Name()+".")
	} else if p := fn.Package(); p != nil {
		s = strings.ReplaceAll(s, p.Pkg.Path()+".", p.Pkg.Name()+".")
	}
	s = strings.ReplaceAll(s, modulePath+"/", "")
	return s
}

func (eng *Engine) contractFor(fn *ssa.Function) *Contract {
	if c, ok := eng.contracts[fn]; ok {
		return c
	}
	if c, ok := eng.externByName[fn.String()]; ok {
		return c
	}
	return nil
}

func (eng *Engine) autoInline(fn *ssa.Function) bool { return false }

func (eng *Engine) importAlias(p *ssa.Package, name string) *types.Package {
	pk := eng.pkgByPath[p.Pkg.Path()]
	if pk == nil {
		return nil
	}
	for _, f := range pk.Syntax {
		for _, imp := range f.Imports {
			if imp.Name != nil && imp.Name.Name == name {
				path := strings.Trim(imp.Path.Value, `"`)
				if ip := pk.Imports[path]; ip != nil {
					return ip.Types
				}
			}
		}
	}
	return nil
}

// load parses the contract files and loads the packages that carry them.
func (eng *Engine) load() error {
	start := time.Now()
	var cfiles []string
	filepath.Walk(eng.repo, func(p string, info os.FileInfo, err error) error {
		if err == nil && !info.IsDir() && info.Name() == "zz_verif_contracts.go" {
			cfiles = append(cfiles, p)
		}
		return nil
	})
	sort.Strings(cfiles)
	var patterns []string
	for _, f := range cfiles {
		cf, err := parseContractFile(f)
		if err != nil {
			return err
		}
		eng.files = append(eng.files, cf)
		rel, _ := filepath.Rel(eng.repo, filepath.Dir(f))
		patterns = append(patterns, "./"+rel)
	}
	if len(patterns) == 0 {
		return fmt.Errorf("no contract files found under %s", eng.repo)
	}
	// extern contracts
	externFile := filepath.Join(eng.verif, "contracts", "extern.spec")
	var externCF *ContractFile
	if _, err := os.Stat(externFile); err == nil {
		cf, err := parseContractFile(externFile)
		if err != nil {
			return err
		}
		externCF = cf
	}
	// go.mod copy so that nothing is ever written inside /repo
	modDir := filepath.Join(eng.tmpdir, "mod")
	os.MkdirAll(modDir, 0o755)
	for _, f := range []string{"go.mod", "go.sum"} {
		data, err := os.ReadFile(filepath.Join(eng.repo, f))
		if err != nil {
			return err
		}
		os.WriteFile(filepath.Join(modDir, f), data, 0o644)
	}
	eng.fset = token.NewFileSet()
	cfg := &packages.Config{
		Mode:       packages.LoadAllSyntax,
		Dir:        eng.repo,
		Fset:       eng.fset,
		BuildFlags: []string{"-tags=verif", "-modfile=" + filepath.Join(modDir, "go.mod")},
		Env:        append(os.Environ(), "GOFLAGS=-mod=mod", "GOPROXY=off", "GOSUMDB=off", "GOTOOLCHAIN=local"),
	}
	pkgs, err := packages.Load(cfg, patterns...)
	if err != nil {
		return err
	}
	nerr := 0
	packages.Visit(pkgs, nil, func(p *packages.Package) {
		for _, e := range p.Errors {
			if strings.HasPrefix(p.PkgPath, modulePath) {
				fmt.Fprintf(os.Stderr, "load error: %s: %v\n", p.PkgPath, e)
				nerr++
			}
		}
	})
	if nerr > 0 {
		return fmt.Errorf("%d load errors in /repo packages (does the tree compile with -tags verif?)", nerr)
	}
	eng.pkgs = pkgs
	eng.pkgByPath = map[string]*packages.Package{}
	packages.Visit(pkgs, nil, func(p *packages.Package) { eng.pkgByPath[p.PkgPath] = p })
	prog, _ := ssautil.AllPackages(pkgs, ssa.NaiveForm|ssa.GlobalDebug)
	eng.prog = prog
	for _, p := range prog.AllPackages() {
		if strings.HasPrefix(p.Pkg.Path(), modulePath) {
			p.Build()
		}
	}
	eng.findConstTables()
	eng.contracts = map[*ssa.Function]*Contract{}
	eng.externByName = map[string]*Contract{}
	eng.ifaceContracts = map[string]*Contract{}
	eng.typeInvs = map[string][]*TypeInv{}
	for _, cf := range eng.files {
		var pk *packages.Package
		for _, cand := range pkgs {
			for _, gf := range cand.CompiledGoFiles {
				if gf == cf.Path {
					pk = cand
				}
			}
		}
		if pk == nil {
			return fmt.Errorf("contract file %s is not part of a loaded package (missing //go:build verif or package clause?)", cf.Path)
		}
		sp := prog.Package(pk.Types)
		if sp == nil {
			return fmt.Errorf("no SSA package for %s", pk.PkgPath)
		}
		for _, c := range cf.Contracts {
			if c.Lemma {
				eng.lemmas = append(eng.lemmas, lemmaTarget{c, sp})
				continue
			}
			if c.Bounded {
				eng.bounded = append(eng.bounded, lemmaTarget{c, sp})
				continue
			}
			if c.Extern {
				c.ScopePkg = sp.Pkg.Path()
				eng.registerExtern(c)
				continue
			}
			if strings.HasPrefix(c.Ref, "iface ") {
				eng.ifaceContracts[strings.TrimSpace(strings.TrimPrefix(c.Ref, "iface "))] = c
				continue
			}
			fn := eng.resolveFunc(sp, c.Ref)
			if fn == nil {
				eng.structural = append(eng.structural, fmt.Sprintf("%s:%d: contract for %q binds to no function in %s", strings.TrimPrefix(c.File, eng.repo+"/"), c.Line, c.Ref, sp.Pkg.Name()))
				continue
			}
			if prev, dup := eng.contracts[fn]; dup {
				// several blocks for one function: clauses accumulate
				mergeContract(prev, c)
				continue
			}
			eng.contracts[fn] = c
			eng.targets = append(eng.targets, target{fn, c})
		}
		for _, ti := range cf.TypeInvs {
			key := sp.Pkg.Name() + "." + ti.Type
			eng.typeInvs[key] = append(eng.typeInvs[key], ti)
		}
	}
	for _, tg := range eng.targets {
		if !tg.c.HasMod && !tg.c.ModAny {
			// default frame of a verified contract: nothing visible to the caller changes (checked)
			tg.c.HasMod = true
		}
	}
	if externCF != nil {
		for _, c := range externCF.Contracts {
			eng.registerExtern(c)
		}
	}
	eng.loadSecs = time.Since(start).Seconds()
	return nil
}

func (eng *Engine) registerExtern(c *Contract) {
	c.Extern = true
	if strings.HasPrefix(c.Ref, "iface ") {
		eng.ifaceContracts[strings.TrimSpace(strings.TrimPrefix(c.Ref, "iface "))] = c
		return
	}
	eng.externByName[c.Ref] = c
}

// resolveFunc resolves Name | (T).M | (*T).M | any of these followed by $k...
func (eng *Engine) resolveFunc(sp *ssa.Package, ref string) *ssa.Function {
	base := ref
	var anon []int
	if i := strings.Index(ref, "$"); i >= 0 {
		base = ref[:i]
		for _, s := range strings.Split(ref[i+1:], "$") {
			var k int
			fmt.Sscanf(s, "%d", &k)
			anon = append(anon, k)
		}
	}
	var fn *ssa.Function
	if strings.HasPrefix(base, "(") {
		j := strings.Index(base, ").")
		if j < 0 {
			return nil
		}
		tname := base[1:j]
		mname := base[j+2:]
		ptr := strings.HasPrefix(tname, "*")
		tname = strings.TrimPrefix(tname, "*")
		tm, ok := sp.Members[tname].(*ssa.Type)
		if !ok {
			return nil
		}
		var t types.Type = tm.Type()
		if ptr {
			t = types.NewPointer(t)
		}
		ms := eng.prog.MethodSets.MethodSet(t)
		for i := 0; i < ms.Len(); i++ {
			if ms.At(i).Obj().Name() == mname {
				f := eng.prog.MethodValue(ms.At(i))
				// do not bind a (*T).M reference to a value-receiver method wrapper
				if f != nil && f.Synthetic != "" {
					if obj, ok := ms.At(i).Obj().(*types.Func); ok {
						f = eng.prog.FuncValue(obj)
					}
				}
				fn = f
			}
		}
	} else {
		fn = sp.Func(base)
	}
	for _, k := range anon {
		if fn == nil || k < 1 || k > len(fn.AnonFuncs) {
			return nil
		}
		fn = fn.AnonFuncs[k-1]
	}
	return fn
}

// loopOrdinals maps natural loops (sorted by header index) to the 1-based
// source-order ordinal of their for/range statement.
func (eng *Engine) loopOrdinals(fn *ssa.Function, headers []*ssa.BasicBlock, loops map[*ssa.BasicBlock]*loopInfo) []int {
	out := make([]int, len(headers))
	for i := range out {
		out[i] = i + 1
	}
	syn := fn.Syntax()
	if syn == nil {
		return out
	}
	var body *ast.BlockStmt
	switch s := syn.(type) {
	case *ast.FuncDecl:
		body = s.Body
	case *ast.FuncLit:
		body = s.Body
	}
	if body == nil {
		return out
	}
	var stmts []ast.Node
	ast.Inspect(body, func(n ast.Node) bool {
		switch n.(type) {
		case *ast.FuncLit:
			return false
		case *ast.ForStmt, *ast.RangeStmt:
			stmts = append(stmts, n)
		}
		return true
	})
	if len(stmts) == 0 {
		return out
	}
	// order loops by size ascending so that inner loops claim their statement first
	idx := make([]int, len(headers))
	for i := range idx {
		idx[i] = i
	}
	sort.Slice(idx, func(a, b int) bool { return len(loops[headers[idx[a]]].blocks) < len(loops[headers[idx[b]]].blocks) })
	taken := map[int]bool{}
	ok := true
	for _, i := range idx {
		li := loops[headers[i]]
		var poss []token.Pos
		for b := range li.blocks {
			for _, ins := range b.Instrs {
				if _, isDbg := ins.(*ssa.DebugRef); isDbg {
					continue
				}
				if p := ins.Pos(); p.IsValid() && p >= body.Pos() && p <= body.End() {
					poss = append(poss, p)
				}
			}
		}
		best := -1
		for k, s := range stmts {
			if taken[k] {
				continue
			}
			all := true
			for _, p := range poss {
				if p < s.Pos() || p > s.End() {
					all = false
					break
				}
			}
			if all && len(poss) > 0 {
				if best < 0 || s.Pos() > stmts[best].Pos() {
					best = k
				}
			}
		}
		if best < 0 {
			ok = false
			break
		}
		taken[best] = true
		out[i] = best + 1
	}
	if !ok {
		for i := range out {
			out[i] = i + 1
		}
	}
	return out
}

// ---------------------------------------------------------------------------
// verifying one function

type funcResult struct {
	Name        string
	Props       []string
	File        string
	Obligations []*Obligation
	Imprecise   []string
	SpecErrors  []string
	Externs     []string
	Callees     []string
	Inlined     []string
	Blocks      int
	Trusted     string
	Waived      []string
}

func (eng *Engine) newTop(fn *ssa.Function, c *Contract) *fnCtx {
	fc := &fnCtx{eng: eng, fn: fn, contract: c, defs: newDefs(),
		kindCtr: map[string]int{}, heapInit: map[string]string{}, heapSorts: map[string]string{}, strLits: map[string]string{},
		params: map[string]Val{}, externsUsed: map[string]bool{}, tablesUsed: map[string]bool{}, inlinedFns: map[string]bool{}, calleeUsed: map[string]bool{},
		callOrd: map[string]int{}, storeOrd: map[*ssa.Alloc]int{}, framedBases: map[string]bool{}, boundCalls: map[int]bool{}, boundAfters: map[int]bool{}, heapElemTy: map[string]types.Type{}}
	fc.top = fc
	fc.countCalls = countedCallees(c, callsRe, false)
	fc.wantResults = countedCallees(c, callResultRe, true)
	fc.callResults = map[string]Val{}
	return fc
}

var callsRe = regexp.MustCompile(`\bcalls\(([A-Za-z_][A-Za-z0-9_$]*)\)`)

var callResultRe = regexp.MustCompile(`\bcallresult\(([A-Za-z_][A-Za-z0-9_$]*)\s*,\s*([0-9]+)\)`)

// countedCallees: the callee names a contract mentions in calls(f) terms (a ghost counter is kept for these
// only), or the "f#k" keys of its callresult(f, k) terms
func countedCallees(c *Contract, callsRe *regexp.Regexp, withK bool) map[string]bool {
	out := map[string]bool{}
	if c == nil {
		return out
	}
	add := func(cl Clause) {
		for _, m := range callsRe.FindAllStringSubmatch(cl.Text, -1) {
			if withK {
				out[m[1]+"#"+m[2]] = true
			} else {
				out[m[1]] = true
			}
		}
	}
	for _, cl := range c.Ensures {
		add(cl)
	}
	for _, cl := range c.Shows {
		add(cl)
	}
	for _, r := range c.Returns {
		add(r.Assert)
	}
	for _, cs := range c.Calls {
		add(cs.Assert)
	}
	for _, a := range c.Afters {
		add(a.Assert)
	}
	for _, l := range c.Loops {
		for _, cl := range l.Invariants {
			add(cl)
		}
		for _, cl := range l.Steps {
			add(cl)
		}
		for _, cl := range l.Exits {
			add(cl)
		}
	}
	return out
}

func (eng *Engine) verifyFunction(tg target) *funcResult {
	fn, c := tg.fn, tg.c
	res := &funcResult{Name: eng.funcDisplayName(fn), Props: c.Props, Blocks: len(fn.Blocks), Trusted: c.Trusted}
	if p := fn.Pos(); p.IsValid() {
		res.File = strings.TrimPrefix(eng.fset.Position(p).Filename, eng.repo+"/")
	}
	if c.Trusted != "" || fn.Blocks == nil {
		return res
	}
	fc := eng.newTop(fn, c)
	defer func() {
		if r := recover(); r != nil {
			res.SpecErrors = append(res.SpecErrors, fmt.Sprintf("engine panic while translating %s: %v", res.Name, r))
			res.Obligations = fc.obligations
		}
	}()
	st := &State{pc: "true", heapBase: "0", cells: map[*ssa.Alloc]string{}, globs: map[*ssa.Global]string{}, heap: map[string]string{}}
	st.alloc = fc.defs.Declare("alloc0", "Int")
	fc.alloc0 = st.alloc
	fc.assume(st, "(>= "+st.alloc+" 1)")
	var args []Val
	var inputs []modelInput
	names := paramNames(fn)
	for i, p := range fn.Params {
		v := fc.freshVal(st, "in."+names[i], p.Type())
		args = append(args, v)
		fc.params[names[i]] = v
		fc.paramOrder = append(fc.paramOrder, names[i])
		inputs = append(inputs, modelInput{Name: names[i], Term: v.T, Ty: p.Type()})
	}
	// type invariants and preconditions
	for _, a := range args {
		for _, f := range fc.typeInvOf(st, a) {
			fc.assume(st, f)
		}
	}
	envPre := &SpecEnv{fc: fc, st: st, vars: fc.params, bound: map[string]Val{}, pkg: fn.Package(), lets: letsOf(c)}
	for _, r := range c.Requires {
		g, err := envPre.assumption(r.Expr)
		if err != nil {
			fc.specError(r, err)
			continue
		}
		fc.assume(st, g)
	}
	fc.entry = st.clone()
	fc.obligeSat(st, "vacuity-pre", "preconditions and type invariants are satisfiable")
	for _, d := range c.Decr {
		v, err := envPre.eval(d.Expr)
		if err != nil {
			fc.specError(d, err)
			continue
		}
		fc.recMeasures = append(fc.recMeasures, fc.defs.Define("rec.measure", "Int", envPre.coerce(v, types.Typ[types.Int]).T))
	}
	fc.execBody(st, args)
	// exits
	var edges []inEdge
	for _, r := range fc.returns {
		edges = append(edges, inEdge{nil, r.st})
	}
	if len(edges) > 0 {
		ret := fc.mergeStates(edges, "exit")
		nres := fn.Signature.Results().Len()
		results := make([]Val, nres)
		for i := 0; i < nres; i++ {
			var term string
			first := true
			for j := len(fc.returns) - 1; j >= 0; j-- {
				r := fc.returns[j]
				if r.st.dead {
					continue
				}
				if first {
					term = r.vals[i].T
					first = false
				} else {
					term = ite(r.st.pc, r.vals[i].T, term)
				}
			}
			rt := fn.Signature.Results().At(i).Type()
			results[i] = Val{T: fc.defs.Define("result", fc.S().SortOf(rt), term), Ty: rt}
		}
		fc.obligeSat(ret, "vacuity-exit", "some execution reaches a return")
		env := &SpecEnv{fc: fc, st: ret, old: fc.entry, vars: map[string]Val{}, oldVars: nil, bound: map[string]Val{}, pkg: fn.Package(), lets: letsOf(c)}
		for k, v := range fc.params {
			env.vars[k] = v
		}
		// final values of locals may be named in ensures clauses (ghost witnesses)
		env.ghost = func(name string) (Val, bool) {
			a := calleeLocal(fn, name)
			if a == nil {
				return Val{}, false
			}
			et := a.Type().(*types.Pointer).Elem()
			if v, ok := ret.cells[a]; ok && v != "" {
				return Val{T: v, Ty: et}, true
			}
			if fc.escaping[a] {
				return Val{T: fc.readLVal(ret, &LVal{Kind: lvHeap, Ptr: fc.vals[a].T, Base: et}), Ty: et}, true
			}
			return Val{}, false
		}
		rn := resultNames(fn.Signature)
		for i, n := range rn {
			env.vars[n] = results[i]
			env.vars[fmt.Sprintf("result%d", i)] = results[i]
		}
		if nres == 1 {
			env.vars["result"] = results[0]
		}
		// `shows` clauses first, then `ensures`, each proved under the ones before it (a chain of
		// lemmas: proving A, then B assuming A, establishes both)
		for i, e := range c.Shows {
			g, err := env.goal(e.Expr)
			if err != nil {
				fc.specError(e, err)
				continue
			}
			name := fmt.Sprintf("shows%d", i+1)
			if e.Label != "" {
				name = "shows-" + e.Label
			}
			if ob := fc.oblige(ret, "ensures", name, g, "postcondition (not exported to callers): "+e.Text, token.NoPos, true); ob != nil {
				ob.Clause = e.Expr
			}
			if h, err := env.assumption(e.Expr); err == nil {
				fc.assume(ret, h)
			}
		}
		for i, e := range c.Ensures {
			g, err := env.goal(e.Expr)
			if err != nil {
				fc.specError(e, err)
				continue
			}
			name := fmt.Sprintf("ensures%d", i+1)
			if e.Label != "" {
				name = "ensures-" + e.Label
			}
			if c.AssumeEnsures != "" {
				fc.externsUsed["assumed postcondition (not proved) of "+eng.funcDisplayName(fn)+": "+e.Text+" — "+c.AssumeEnsures] = true
			} else if ob := fc.oblige(ret, "ensures", name, g, "postcondition: "+e.Text, token.NoPos, true); ob != nil {
				ob.Clause = e.Expr
			}
			if h, err := env.assumption(e.Expr); err == nil {
				fc.assume(ret, h)
			}
		}
		fc.returnObligations(fn, c, rn)
		for i, a := range args {
			for j, f := range fc.typeInvOf(ret, a) {
				fc.oblige(ret, "typeinv", fmt.Sprintf("typeinv-%s%d", names[i], j+1), f, "type invariant re-established at exit", token.NoPos, true)
			}
		}
		if c.HasMod && c.AssumeFrame == "" {
			fc.frameObligations(ret, envPre.with(fc.entry))
		}
		if c.AssumeFrame != "" {
			fc.externsUsed["assumed frame (modifies clause not proved) of "+eng.funcDisplayName(fn)+": "+c.AssumeFrame] = true
		}
	}
	for _, o := range fc.obligations {
		o.Inputs = inputs
	}
	res.Obligations = fc.obligations
	res.Imprecise = fc.imprecise
	res.SpecErrors = append(fc.specErrors, fc.unboundClauses()...)
	res.Externs = sortedKeys(fc.externsUsed)
	for _, t := range sortedKeys(fc.tablesUsed) {
		res.Externs = append(res.Externs, "constant table "+t+" (entries read from its init literal each run; assumed not mutated through reflection/unsafe or by importers)")
	}
	res.Callees = sortedKeys(fc.calleeUsed)
	res.Inlined = sortedKeys(fc.inlinedFns)
	res.Waived = fc.waivedUsed
	return res
}

// returnObligations discharges `return k ensures` clauses: a postcondition of the k-th
// return statement (source order), over the state and the locals at that return.
func (fc *fnCtx) returnObligations(fn *ssa.Function, c *Contract, rn []string) {
	if len(c.Returns) == 0 {
		return
	}
	var poss []token.Pos
	for _, b := range fn.Blocks {
		for _, in := range b.Instrs {
			if r, ok := in.(*ssa.Return); ok && r.Pos().IsValid() {
				poss = append(poss, r.Pos())
			}
		}
	}
	sort.Slice(poss, func(i, j int) bool { return poss[i] < poss[j] })
	for i, rs := range c.Returns {
		if rs.K < 1 || rs.K > len(poss) {
			fc.specErrors = append(fc.specErrors, fmt.Sprintf("%s:%d: `return %d ensures` binds to no return statement", strings.TrimPrefix(c.File, fc.eng.repo+"/"), rs.Assert.Line, rs.K))
			continue
		}
		name := fmt.Sprintf("ensures-ret%d-%d", rs.K, i+1)
		if rs.Assert.Label != "" {
			name = fmt.Sprintf("ensures-ret%d-%s", rs.K, rs.Assert.Label)
		}
		found := false
		for _, r := range fc.returns {
			if r.pos != poss[rs.K-1] {
				continue
			}
			found = true
			r := r
			env := &SpecEnv{fc: fc, st: r.st, old: fc.entry, vars: map[string]Val{}, bound: map[string]Val{}, pkg: fn.Package(), lets: letsOf(c)}
			for k, v := range fc.params {
				env.vars[k] = v
			}
			env.ghost = func(name string) (Val, bool) {
				a := calleeLocal(fn, name)
				if a == nil {
					return Val{}, false
				}
				et := a.Type().(*types.Pointer).Elem()
				if v, ok := r.st.cells[a]; ok && v != "" {
					return Val{T: v, Ty: et}, true
				}
				if fc.escaping[a] {
					return Val{T: fc.readLVal(r.st, &LVal{Kind: lvHeap, Ptr: fc.vals[a].T, Base: et}), Ty: et}, true
				}
				return Val{}, false
			}
			// a parameter that the body reassigns denotes its CURRENT value at this return
			// (use old(p) for the value on entry)
			for k := range fc.params {
				if v, ok := env.ghost(k); ok {
					env.vars[k] = v
				}
			}
			env.oldVars = fc.params
			for j, n := range rn {
				if j < len(r.vals) {
					env.vars[n] = r.vals[j]
					env.vars[fmt.Sprintf("result%d", j)] = r.vals[j]
				}
			}
			if len(r.vals) == 1 {
				env.vars["result"] = r.vals[0]
			}
			g, err := env.goal(rs.Assert.Expr)
			if err != nil {
				fc.specError(rs.Assert, err)
				continue
			}
			if ob := fc.oblige(r.st, "ensures", name, g, fmt.Sprintf("postcondition of return statement %d: %s", rs.K, rs.Assert.Text), r.pos, true); ob != nil {
				ob.Clause = rs.Assert.Expr
			}
		}
		if !found {
			// the return statement is unreachable under the contract: nothing to prove, but say so
			fc.noteImprecise("`return %d ensures` binds to a return statement no execution reaches", rs.K)
		}
	}
}

// obligeSat adds a reachability (vacuity) check: the state must be satisfiable.
func (fc *fnCtx) obligeSat(st *State, name, desc string) {
	o := &Obligation{Name: fc.funcName() + "#" + name, Func: fc.funcName(), Kind: "vacuity", Explicit: true, Claimed: true, Desc: desc, PC: st.pc, Goal: "false", fc: fc.top}
	if fc.contract != nil {
		o.Props = fc.contract.Props
	}
	fc.top.obligations = append(fc.top.obligations, o)
}

// frameObligations: every heap location allocated at entry and not listed in
// `modifies` keeps its value.
func (fc *fnCtx) frameObligations(ret *State, entryEnv *SpecEnv) {
	allowed := fc.frameAllowed()
	alloc0 := fc.entry.alloc
	for _, h := range sortedKeys(fc.heapSorts) {
		srt := fc.heapSorts[h]
		fin := fc.heapGet(ret, h, srt)
		ini := fc.heapGet(fc.entry, h, srt)
		if fin == ini {
			continue
		}
		var excl []string
		for _, r := range allowed[h] {
			excl = append(excl, not(eq("r", r)))
		}
		cond := and(append([]string{"(< 0 r)", "(< r " + alloc0 + ")"}, excl...)...)
		g := fmt.Sprintf("(forall ((r Int)) (=> %s (= (select %s r) (select %s r))))", cond, fin, ini)
		fc.oblige(ret, "frame", "frame-"+h, g, "frame: locations of heap "+h+" not listed in modifies are unchanged", token.NoPos, true)
	}
	// globals
	for g, v := range ret.globs {
		ini := fc.globGet(fc.entry, g)
		if v != ini {
			fc.oblige(ret, "frame", "frame-global-"+g.Name(), eq(v, ini), "frame: package variable "+g.Name()+" unchanged", token.NoPos, true)
		}
	}
	if ret.heapBase != fc.entry.heapBase && !fc.framedBases[ret.heapBase] {
		fc.oblige(ret, "frame", "frame-havoc", "false", "frame: the function calls code without a frame contract (whole heap havocked)", token.NoPos, true)
	}
}

// ---------------------------------------------------------------------------
// lemmas: contract-only obligations

func (eng *Engine) verifyLemma(lt lemmaTarget) *funcResult {
	c := lt.c
	res := &funcResult{Name: lt.pkg.Pkg.Name() + ".lemma:" + c.Ref, Props: c.Props, File: strings.TrimPrefix(c.File, eng.repo+"/")}
	// a lemma needs some function context for naming; use the package init
	fn := lt.pkg.Func("init")
	fc := eng.newTop(fn, c)
	fc.lemmaName = res.Name
	defer func() {
		if r := recover(); r != nil {
			res.SpecErrors = append(res.SpecErrors, fmt.Sprintf("engine panic in lemma %s: %v", res.Name, r))
		}
	}()
	st := &State{pc: "true", heapBase: "0", cells: map[*ssa.Alloc]string{}, globs: map[*ssa.Global]string{}, heap: map[string]string{}}
	st.alloc = fc.defs.Declare("alloc0", "Int")
	fc.assume(st, "(>= "+st.alloc+" 1)")
	env := &SpecEnv{fc: fc, st: st, vars: map[string]Val{}, bound: map[string]Val{}, pkg: lt.pkg, lets: letsOf(c)}
	var inputs []modelInput
	for _, p := range c.Params {
		// "name Type"
		f := strings.Fields(p)
		if len(f) != 2 {
			fc.specError(Clause{Text: "param " + p, File: c.File, Line: c.Line}, fmt.Errorf("param name Type"))
			continue
		}
		ex, err := parseSpecExpr(f[1])
		var t types.Type
		if err == nil {
			t = env.resolveType(ex)
		}
		if t == nil {
			fc.specError(Clause{Text: "param " + p, File: c.File, Line: c.Line}, fmt.Errorf("unknown type %s", f[1]))
			continue
		}
		v := fc.freshVal(st, "in."+f[0], t)
		env.vars[f[0]] = v
		inputs = append(inputs, modelInput{Name: f[0], Term: v.T, Ty: t})
	}
	for _, r := range c.Requires {
		g, err := env.assumption(r.Expr)
		if err != nil {
			fc.specError(r, err)
			continue
		}
		fc.assume(st, g)
	}
	fc.entry = st.clone()
	fc.obligeSat(st, "vacuity-pre", "lemma hypotheses are satisfiable")
	for i, e := range c.Ensures {
		g, err := env.goal(e.Expr)
		if err != nil {
			fc.specError(e, err)
			continue
		}
		name := fmt.Sprintf("ensures%d", i+1)
		if e.Label != "" {
			name = "ensures-" + e.Label
		}
		fc.oblige(st, "lemma", name, g, "lemma: "+e.Text, token.NoPos, true)
	}
	for _, o := range fc.obligations {
		o.Inputs = inputs
	}
	res.Obligations = fc.obligations
	res.SpecErrors = fc.specErrors
	res.Imprecise = fc.imprecise
	res.Inlined = sortedKeys(fc.inlinedFns)
	return res
}

// ---------------------------------------------------------------------------
// discharging

func (eng *Engine) script(o *Obligation) string {
	body, n := o.fc.defs.Slice(o.PC, o.Goal)
	o.Nodes = n
	var b strings.Builder
	tail := fmt.Sprintf("(assert %s)\n(assert (not %s))\n", o.PC, o.Goal)
	if o.Kind == "vacuity" {
		tail = fmt.Sprintf("(assert %s)\n", o.PC)
	}
	b.WriteString(eng.sorts.Prelude(body + tail))
	b.WriteString(body)
	b.WriteString(tail)
	b.WriteString(sumAxioms(body + tail))
	b.WriteString("(check-sat)\n")
	return b.String()
}

func (eng *Engine) discharge(obls []*Obligation) {
	var wg sync.WaitGroup
	sem := make(chan struct{}, 12)
	for _, o := range obls {
		if !o.Claimed && eng.skipUnclaimed {
			o.Res = SolverResult{Status: "skipped", Solver: "-"}
			continue
		}
		if o.Goal == "true" && o.Kind != "vacuity" {
			o.Trivial = true
			o.Res = SolverResult{Status: "unsat", Solver: "syntactic"}
			continue
		}
		if o.PC == "false" {
			o.Trivial = true
			if o.Kind == "vacuity" {
				o.Res = SolverResult{Status: "unsat", Solver: "syntactic"}
			} else {
				o.Res = SolverResult{Status: "unsat", Solver: "syntactic"}
			}
			continue
		}
		wg.Add(1)
		go func(o *Obligation) {
			defer wg.Done()
			sem <- struct{}{}
			defer func() { <-sem }()
			o.Script = eng.script(o)
			to := eng.timeout
			if o.Kind == "vacuity" && to > 3 {
				to = 3 // a reachability check only fails when refuted (unsat), which is fast
			}
			o.Res = runPortfolio(o.Script, eng.tmpdir, o.Name, to, eng.seed)
		}(o)
	}
	wg.Wait()
}

// Proved reports whether the obligation is discharged (vacuity checks expect sat).
func (o *Obligation) Proved() bool {
	if o.Kind == "vacuity" {
		return o.Res.Status != "unsat" // only a refuted reachability check is a failure
	}
	return o.Res.Status == "unsat"
}

func mergeContract(dst, src *Contract) {
	for _, p := range src.Props {
		if !contains(dst.Props, p) {
			dst.Props = append(dst.Props, p)
		}
	}
	dst.Requires = append(dst.Requires, src.Requires...)
	dst.Ensures = append(dst.Ensures, src.Ensures...)
	dst.Returns = append(dst.Returns, src.Returns...)
	dst.Shows = append(dst.Shows, src.Shows...)
	dst.Modifies = append(dst.Modifies, src.Modifies...)
	dst.HasMod = dst.HasMod || src.HasMod
	dst.ModAny = dst.ModAny || src.ModAny
	dst.Decr = append(dst.Decr, src.Decr...)
	for k, ls := range src.Loops {
		if d := dst.Loops[k]; d != nil {
			d.Invariants = append(d.Invariants, ls.Invariants...)
			d.Decreases = append(d.Decreases, ls.Decreases...)
			d.Steps = append(d.Steps, ls.Steps...)
			d.Exits = append(d.Exits, ls.Exits...)
		} else {
			dst.Loops[k] = ls
		}
	}
	dst.Calls = append(dst.Calls, src.Calls...)
	dst.Afters = append(dst.Afters, src.Afters...)
	dst.Lets = append(dst.Lets, src.Lets...)
	dst.Inline = dst.Inline || src.Inline
	dst.Pure = dst.Pure || src.Pure
	if src.AssumeEnsures != "" {
		dst.AssumeEnsures = src.AssumeEnsures
	}
	if src.AssumeFrame != "" {
		dst.AssumeFrame = src.AssumeFrame
	}
	dst.PureRefs = dst.PureRefs || src.PureRefs
	dst.NoPanic = dst.NoPanic || src.NoPanic
	dst.Finite = dst.Finite || src.Finite
}
