package main

// Specification expressions (Go expression syntax + old, ==>, forall/exists, ...)
// evaluated to SMT terms in a given symbolic state.

import (
	"fmt"
	"go/ast"
	"go/constant"
	"go/token"
	"go/types"
	"os"
	"regexp"
	"strconv"
	"strings"

	"golang.org/x/tools/go/ssa"
)

type SpecEnv struct {
	inIfaceFacts bool // evaluating the assumed contract of an interface method application
	fc           *fnCtx
	st           *State
	old          *State
	vars         map[string]Val
	oldVars      map[string]Val
	bound        map[string]Val
	pkg          *ssa.Package
	lets         map[string]ast.Expr
	letCache     *map[string]Val
	// ghost resolves names of callee locals used in ensures clauses (final values in the
	// callee, fresh existential witnesses at call sites)
	ghost func(name string) (Val, bool)
	pol   int // +1: goal position (forall may be skolemised); -1: assumption position; 0: neither
}

// goal evaluates a clause that is to be proved.
func (e *SpecEnv) goal(x ast.Expr) (string, error) {
	n := *e
	n.pol = 1
	lc := map[string]Val{}
	n.letCache = &lc
	e.fc.top.curSkolems = nil
	var sides []string
	saved := e.fc.top.specSides
	e.fc.top.specSides = &sides
	r, err := n.evalBool(x)
	e.fc.top.specSides = saved
	if err != nil {
		return "", err
	}
	return implies(and(sides...), r), nil
}

// assumption evaluates a clause that is to be assumed.
func (e *SpecEnv) assumption(x ast.Expr) (string, error) {
	n := *e
	n.pol = -1
	lc := map[string]Val{}
	n.letCache = &lc
	var sides []string
	saved := e.fc.top.specSides
	e.fc.top.specSides = &sides
	r, err := n.evalBool(x)
	e.fc.top.specSides = saved
	if err != nil {
		return "", err
	}
	return and(append(sides, r)...), nil
}

// underBinder evaluates a quantifier body, scoping the side conditions inside the binder.
func (e *SpecEnv) underBinder(x ast.Expr, universal bool) (string, error) {
	var sides []string
	saved := e.fc.top.specSides
	if saved != nil {
		e.fc.top.specSides = &sides
	}
	r, err := e.evalBool(x)
	e.fc.top.specSides = saved
	if err != nil {
		return "", err
	}
	if universal {
		return implies(and(sides...), r), nil
	}
	return and(append(sides, r)...), nil
}

func (e *SpecEnv) withPol(p int) *SpecEnv {
	n := *e
	n.pol = p
	return &n
}

// specEnv builds the environment for clauses of the function being verified,
// evaluated in state st: locals by name (current cell values), parameters,
// extra bindings.
func (fc *fnCtx) specEnv(st *State, extra map[string]Val) *SpecEnv {
	t := fc.top
	env := &SpecEnv{fc: fc, st: st, old: t.entry, vars: map[string]Val{}, oldVars: t.params, bound: map[string]Val{}, pkg: fc.fn.Package(), lets: letsOf(fc.contract)}
	// locals (cells) by source name; later declarations shadow earlier ones only if live
	cellSet := map[*ssa.Alloc]bool{}
	for a := range st.cells {
		cellSet[a] = true
	}
	// lexical resolution: at position curPos, a name denotes the variable in scope there
	lexical := map[string]token.Pos{}
	if t.curPos.IsValid() && fc.fn.Pkg != nil {
		if inner := fc.fn.Pkg.Pkg.Scope().Innermost(t.curPos); inner != nil {
			seen := map[string]bool{}
			for a := range cellSet {
				if a.Comment == "" || seen[a.Comment] {
					continue
				}
				seen[a.Comment] = true
				if _, obj := inner.LookupParent(a.Comment, t.curPos); obj != nil {
					lexical[a.Comment] = obj.Pos()
				}
				if os.Getenv("GOWP_DEBUG") != "" {
					_, obj := inner.LookupParent(a.Comment, t.curPos)
					fmt.Fprintf(os.Stderr, "lexical %s at %v -> %v (alloc pos %v)\n", a.Comment, fc.eng.fset.Position(t.curPos), obj, fc.eng.fset.Position(a.Pos()))
				}
			}
		}
	}
	for _, a := range sortedAllocs(cellSet) {
		if lp, ok := lexical[a.Comment]; ok && a.Pos().IsValid() && a.Pos() != lp {
			// another variable of the same name is the one in scope
			hasMatch := false
			for b := range cellSet {
				if b.Comment == a.Comment && b.Pos() == lp {
					hasMatch = true
				}
			}
			// ... or a captured variable of the enclosing function (read through its capture pointer)
			for _, fv := range fc.fn.FreeVars {
				if fv.Name() == a.Comment && fv.Pos() == lp {
					hasMatch = true
				}
			}
			if hasMatch {
				continue
			}
		}
		v := st.cells[a]
		if a.Comment == "" || a.Parent() != fc.fn {
			continue
		}
		et := a.Type().(*types.Pointer).Elem()
		if prev, ok := env.vars[a.Comment]; ok && prev.T != "" {
			// ambiguous name: prefer the cell written in the loop being specified, else the earliest declaration
			curIn := t.curLoop != nil && cellStoredIn(a, t.curLoop)
			prevIn := t.curLoop != nil && fc.cellAlloc[a.Comment] != nil && cellStoredIn(fc.cellAlloc[a.Comment], t.curLoop)
			if os.Getenv("GOWP_DEBUG") == "cells" && a.Comment == "rangeindex" {
				lo := -1
				if t.curLoop != nil {
					lo = t.curLoop.ordinal
				}
				fmt.Fprintf(os.Stderr, "resolve rangeindex: loop %d cand %v val %q curIn=%v prevIn=%v prevPos=%v\n", lo, fc.eng.fset.Position(a.Pos()), v, curIn, prevIn, fc.eng.fset.Position(fc.cellPos[a.Comment]))
			}
			if prevIn && !curIn {
				continue
			}
			if curIn == prevIn && a.Pos() > fc.cellPos[a.Comment] {
				continue
			}
		}
		env.vars[a.Comment] = Val{T: v, Ty: et}
		if fc.cellPos == nil {
			fc.cellPos = map[string]token.Pos{}
		}
		fc.cellPos[a.Comment] = a.Pos()
		if fc.cellAlloc == nil {
			fc.cellAlloc = map[string]*ssa.Alloc{}
		}
		fc.cellAlloc[a.Comment] = a
	}
	// the hidden index of the range loop being specified: the cell read first in its header
	// (an inner range loop's index is also written inside the outer loop: not a criterion)
	if t.curLoop != nil && t.curLoop.header.Comment == "rangeindex.loop" && len(t.curLoop.header.Instrs) > 0 && fc.fn == t.curLoop.header.Parent() {
		if ld, ok := t.curLoop.header.Instrs[0].(*ssa.UnOp); ok {
			if a, ok := ld.X.(*ssa.Alloc); ok && a.Comment == "rangeindex" {
				if v, ok := st.cells[a]; ok && v != "" {
					env.vars["rangeindex"] = Val{T: v, Ty: a.Type().(*types.Pointer).Elem()}
				}
			}
		}
	}
	// rangeindexK: the hidden index of range loop number K (to name an OUTER loop's index inside an inner loop)
	for _, li := range t.loopInfo {
		if li.header.Comment != "rangeindex.loop" || len(li.header.Instrs) == 0 || li.header.Parent() != fc.fn {
			continue
		}
		if ld, ok := li.header.Instrs[0].(*ssa.UnOp); ok {
			if a, ok := ld.X.(*ssa.Alloc); ok && a.Comment == "rangeindex" {
				if v, ok := st.cells[a]; ok && v != "" {
					env.vars[fmt.Sprintf("rangeindex%d", li.ordinal)] = Val{T: v, Ty: a.Type().(*types.Pointer).Elem()}
				}
			}
		}
	}
	// escaping locals live in the heap
	for _, a := range sortedAllocs(fc.escaping) {
		if a.Comment == "" {
			continue
		}
		if _, ok := env.vars[a.Comment]; ok {
			continue
		}
		p := fc.vals[a]
		et := a.Type().(*types.Pointer).Elem()
		env.vars[a.Comment] = Val{T: fc.readLVal(st, &LVal{Kind: lvHeap, Ptr: p.T, Base: et}), Ty: et}
	}
	for k, v := range extra {
		env.vars[k] = v
	}
	return env
}

func cellStoredIn(a *ssa.Alloc, li *loopInfo) bool {
	refs := a.Referrers()
	if refs == nil {
		return false
	}
	for _, r := range *refs {
		if s, ok := r.(*ssa.Store); ok && s.Addr == a && li.blocks[s.Block()] {
			return true
		}
	}
	return false
}

func letsOf(c *Contract) map[string]ast.Expr {
	if c == nil || len(c.Lets) == 0 {
		return nil
	}
	m := map[string]ast.Expr{}
	for _, l := range c.Lets {
		m[l.Name] = l.Expr
	}
	return m
}

func (e *SpecEnv) with(st *State) *SpecEnv {
	n := *e
	n.st = st
	return &n
}

func (e *SpecEnv) evalBool(x ast.Expr) (string, error) {
	v, err := e.eval(x)
	if err != nil {
		return "", err
	}
	if v.Const != nil && v.Const.Kind() == constant.Bool {
		if constant.BoolVal(v.Const) {
			return "true", nil
		}
		return "false", nil
	}
	if v.T == "" {
		return "", fmt.Errorf("not a boolean expression")
	}
	return v.T, nil
}

func untyped(c constant.Value) Val { return Val{Const: c} }

// coerce gives an untyped constant the type of its context.
func (e *SpecEnv) coerce(v Val, t types.Type) Val {
	if v.Const == nil || v.Ty != nil {
		return v
	}
	if t == nil {
		switch v.Const.Kind() {
		case constant.Int:
			t = types.Typ[types.Int]
		case constant.Float:
			t = types.Typ[types.Float64]
		case constant.String:
			t = types.Typ[types.String]
		case constant.Bool:
			t = types.Typ[types.Bool]
		}
	}
	if isInterface(t) {
		// constant converted to interface: default type
		d := e.coerce(v, nil)
		return Val{T: e.fc.makeIface(e.st, d), Ty: t}
	}
	return e.fc.constVal(v.Const, t)
}

func (e *SpecEnv) eval(x ast.Expr) (Val, error) {
	switch n := x.(type) {
	case *ast.ParenExpr:
		return e.eval(n.X)
	case *ast.BasicLit:
		switch n.Kind {
		case token.INT, token.FLOAT, token.CHAR, token.STRING:
			return untyped(constant.MakeFromLiteral(n.Value, n.Kind, 0)), nil
		}
		return Val{}, fmt.Errorf("unsupported literal %s", n.Value)
	case *ast.Ident:
		return e.evalIdent(n.Name)
	case *ast.SelectorExpr:
		return e.evalSelector(n)
	case *ast.StarExpr:
		v, err := e.eval(n.X)
		if err != nil {
			return Val{}, err
		}
		pt, ok := v.Ty.Underlying().(*types.Pointer)
		if !ok {
			return Val{}, fmt.Errorf("deref of non-pointer")
		}
		return Val{T: e.fc.readLVal(e.st, &LVal{Kind: lvHeap, Ptr: v.T, Base: pt.Elem()}), Ty: pt.Elem()}, nil
	case *ast.UnaryExpr:
		if n.Op == token.AND {
			// &g for a package-level variable g: the variable's (stable) address
			if id, ok := ast.Unparen(n.X).(*ast.Ident); ok && e.pkg != nil {
				if _, shadow := e.vars[id.Name]; !shadow {
					if o, ok := e.pkg.Pkg.Scope().Lookup(id.Name).(*types.Var); ok {
						if g, ok := e.fc.eng.prog.Package(o.Pkg()).Members[o.Name()].(*ssa.Global); ok {
							return Val{T: e.fc.globalAddr(g), Ty: types.NewPointer(o.Type())}, nil
						}
					}
				}
			}
			return Val{}, fmt.Errorf("& is supported on package-level variables only")
		}
		sub := e
		if n.Op == token.NOT {
			sub = e.withPol(-e.pol)
		} else {
			sub = e.withPol(0)
		}
		v, err := sub.eval(n.X)
		if err != nil {
			return Val{}, err
		}
		switch n.Op {
		case token.NOT:
			if v.Const != nil {
				return untyped(constant.UnaryOp(token.NOT, v.Const, 0)), nil
			}
			return Val{T: not(v.T), Ty: v.Ty}, nil
		case token.SUB:
			if v.Const != nil && v.Ty == nil {
				return untyped(constant.UnaryOp(token.SUB, v.Const, 0)), nil
			}
			return Val{T: "(- " + v.T + ")", Ty: v.Ty}, nil
		case token.ADD:
			return v, nil
		}
		return Val{}, fmt.Errorf("unsupported unary %s", n.Op)
	case *ast.BinaryExpr:
		return e.evalBinary(n)
	case *ast.CallExpr:
		return e.evalCall(n)
	case *ast.IndexExpr:
		b, err := e.eval(n.X)
		if err != nil {
			return Val{}, err
		}
		i, err := e.eval(n.Index)
		if err != nil {
			return Val{}, err
		}
		return e.index(b, i)
	case *ast.SliceExpr:
		return e.evalSliceExpr(n)
	case *ast.CompositeLit:
		return e.evalComposite(n)
	case *ast.TypeAssertExpr:
		v, err := e.eval(n.X)
		if err != nil {
			return Val{}, err
		}
		t := e.resolveType(n.Type)
		if t == nil || v.Ty == nil || !isInterface(v.Ty) {
			return Val{}, fmt.Errorf("bad type assertion in specification")
		}
		if isInterface(t) {
			return Val{T: v.T, Ty: t}, nil
		}
		return Val{T: e.fc.unboxIface(v.T, t), Ty: t}, nil
	}
	return Val{}, fmt.Errorf("unsupported expression %T", x)
}

func (e *SpecEnv) index(b, i Val) (Val, error) {
	i = e.coerce(i, types.Typ[types.Int])
	switch u := b.Ty.Underlying().(type) {
	case *types.Slice:
		l := &LVal{Kind: lvSliceElem, Slice: b.T, Idx: i.T, Base: u.Elem()}
		return Val{T: e.fc.readLVal(e.st, l), Ty: u.Elem()}, nil
	case *types.Array:
		return Val{T: e.fc.defs.Select(b.T, i.T), Ty: u.Elem()}, nil
	case *types.Basic:
		if isString(b.Ty) {
			return Val{T: e.fc.strAt(b.T, i.T), Ty: types.Typ[types.Uint8]}, nil
		}
	case *types.Pointer:
		if a, ok := u.Elem().Underlying().(*types.Array); ok {
			l := (&LVal{Kind: lvHeap, Ptr: b.T, Base: u.Elem()}).extend(PathElem{IsIdx: true, Idx: i.T, From: u.Elem(), To: a.Elem()})
			return Val{T: e.fc.readLVal(e.st, l), Ty: a.Elem()}, nil
		}
	case *types.Map:
		v, _ := e.fc.mapLookup(e.st, b, i)
		return v, nil
	}
	return Val{}, fmt.Errorf("cannot index %s", b.Ty)
}

func (e *SpecEnv) evalSliceExpr(n *ast.SliceExpr) (Val, error) {
	b, err := e.eval(n.X)
	if err != nil {
		return Val{}, err
	}
	lo := "0"
	if n.Low != nil {
		v, err := e.eval(n.Low)
		if err != nil {
			return Val{}, err
		}
		lo = e.coerce(v, types.Typ[types.Int]).T
	}
	var hi string
	if n.High != nil {
		v, err := e.eval(n.High)
		if err != nil {
			return Val{}, err
		}
		hi = e.coerce(v, types.Typ[types.Int]).T
	}
	switch {
	case isString(b.Ty):
		if hi == "" {
			hi = "(s.len " + b.T + ")"
		}
		return Val{T: fmt.Sprintf("(mkstr (s.arr %s) (+ (s.off %s) %s) (- %s %s))", b.T, b.T, lo, hi, lo), Ty: b.Ty}, nil
	default:
		if _, ok := b.Ty.Underlying().(*types.Slice); ok {
			if hi == "" {
				hi = "(sl.len " + b.T + ")"
			}
			return Val{T: fmt.Sprintf("(mkslice (sl.base %s) (+ (sl.off %s) %s) (- %s %s) (- (sl.cap %s) %s))", b.T, b.T, lo, hi, lo, b.T, lo), Ty: b.Ty}, nil
		}
	}
	return Val{}, fmt.Errorf("cannot slice %s", b.Ty)
}

func (e *SpecEnv) evalIdent(name string) (Val, error) {
	switch name {
	case "true":
		return untyped(constant.MakeBool(true)), nil
	case "false":
		return untyped(constant.MakeBool(false)), nil
	case "nil":
		return Val{T: "$nil"}, nil
	}
	if v, ok := e.bound[name]; ok {
		return v, nil
	}
	if ex, ok := e.lets[name]; ok {
		key := fmt.Sprintf("%s@%p/%d", name, e.st, len(e.bound))
		if e.letCache != nil {
			if v, ok := (*e.letCache)[key]; ok {
				return v, nil
			}
		}
		v, err := e.withPol(0).eval(ex)
		if err != nil {
			return Val{}, err
		}
		if v.T != "" && v.Ty != nil && v.Const == nil && len(e.bound) == 0 {
			v.T = e.fc.defs.Define("let."+name, e.fc.S().SortOf(v.Ty), v.T)
			if e.letCache != nil {
				(*e.letCache)[key] = v
			}
		}
		return v, nil
	}
	if v, ok := e.vars[name]; ok {
		return v, nil
	}
	if e.ghost != nil {
		if v, ok := e.ghost(name); ok {
			return v, nil
		}
	}
	// captured variables of a closure under contract: read through the capture pointer
	if e.fc != nil && e.fc.fn != nil && e.st != nil {
		for _, fv := range e.fc.fn.FreeVars {
			if fv.Name() != name {
				continue
			}
			if pv, ok := e.fc.vals[fv]; ok {
				if pt, ok := fv.Type().Underlying().(*types.Pointer); ok {
					return Val{T: e.fc.readLVal(e.st, &LVal{Kind: lvHeap, Ptr: pv.T, Base: pt.Elem()}), Ty: pt.Elem()}, nil
				}
			}
		}
	}
	if e.pkg != nil {
		if obj := e.pkg.Pkg.Scope().Lookup(name); obj != nil {
			return e.objVal(obj)
		}
	}
	return Val{}, fmt.Errorf("undefined identifier %q", name)
}

func (e *SpecEnv) objVal(obj types.Object) (Val, error) {
	switch o := obj.(type) {
	case *types.Const:
		return e.fc.constVal(o.Val(), o.Type()), nil
	case *types.Var:
		if g, ok := e.fc.eng.prog.Package(o.Pkg()).Members[o.Name()].(*ssa.Global); ok {
			return Val{T: e.fc.globGet(e.st, g), Ty: o.Type()}, nil
		}
	case *types.Nil:
		return Val{T: "$nil"}, nil
	}
	return Val{}, fmt.Errorf("cannot use %s in a specification", obj.Name())
}

func (e *SpecEnv) importedPkg(name string) *types.Package {
	if e.pkg == nil {
		return nil
	}
	for _, imp := range e.pkg.Pkg.Imports() {
		if imp.Name() == name {
			return imp
		}
	}
	// aliases: look through the files' import specs
	if p := e.fc.eng.importAlias(e.pkg, name); p != nil {
		return p
	}
	return nil
}

func (e *SpecEnv) evalSelector(n *ast.SelectorExpr) (Val, error) {
	if id, ok := n.X.(*ast.Ident); ok {
		_, isVar := e.vars[id.Name]
		_, isBound := e.bound[id.Name]
		_, isLet := e.lets[id.Name]
		if !isVar && !isBound && !isLet {
			if p := e.importedPkg(id.Name); p != nil {
				obj := p.Scope().Lookup(n.Sel.Name)
				if obj == nil {
					return Val{}, fmt.Errorf("undefined %s.%s", id.Name, n.Sel.Name)
				}
				return e.objVal(obj)
			}
		}
	}
	v, err := e.eval(n.X)
	if err != nil {
		return Val{}, err
	}
	return e.selectField(v, n.Sel.Name)
}

func (e *SpecEnv) selectField(v Val, name string) (Val, error) {
	if v.Ty == nil {
		return Val{}, fmt.Errorf("selector on untyped value")
	}
	var pk *types.Package
	if e.pkg != nil {
		pk = e.pkg.Pkg
	}
	obj, index, _ := types.LookupFieldOrMethod(v.Ty, true, pk, name)
	if obj == nil {
		// unexported field of another package: search manually
		obj, index = lookupFieldAnyPkg(v.Ty, name)
		if obj == nil {
			return Val{}, fmt.Errorf("no field %s in %s", name, v.Ty)
		}
	}
	if _, ok := obj.(*types.Var); !ok {
		return Val{}, fmt.Errorf("%s is not a field", name)
	}
	cur := v
	for _, ix := range index {
		if pt, ok := cur.Ty.Underlying().(*types.Pointer); ok {
			stt := pt.Elem().Underlying().(*types.Struct)
			l := (&LVal{Kind: lvHeap, Ptr: cur.T, Base: pt.Elem()}).extend(PathElem{Field: ix, From: pt.Elem(), To: stt.Field(ix).Type()})
			cur = Val{T: e.fc.readLVal(e.st, l), Ty: stt.Field(ix).Type()}
			continue
		}
		stt, ok := cur.Ty.Underlying().(*types.Struct)
		if !ok {
			return Val{}, fmt.Errorf("field selection on %s", cur.Ty)
		}
		cur = Val{T: e.fc.fieldOf(cur.Ty, ix, cur.T), Ty: stt.Field(ix).Type()}
	}
	return cur, nil
}

func lookupFieldAnyPkg(t types.Type, name string) (types.Object, []int) {
	if p, ok := t.Underlying().(*types.Pointer); ok {
		t = p.Elem()
	}
	st, ok := t.Underlying().(*types.Struct)
	if !ok {
		return nil, nil
	}
	for i := 0; i < st.NumFields(); i++ {
		if st.Field(i).Name() == name {
			return st.Field(i), []int{i}
		}
	}
	for i := 0; i < st.NumFields(); i++ {
		if st.Field(i).Embedded() {
			if o, idx := lookupFieldAnyPkg(st.Field(i).Type(), name); o != nil {
				return o, append([]int{i}, idx...)
			}
		}
	}
	return nil, nil
}

func (e *SpecEnv) evalBinary(n *ast.BinaryExpr) (Val, error) {
	sub := e
	if n.Op != token.LAND && n.Op != token.LOR {
		sub = e.withPol(0)
	}
	a, err := sub.eval(n.X)
	if err != nil {
		return Val{}, err
	}
	b, err := sub.eval(n.Y)
	if err != nil {
		return Val{}, err
	}
	// constant folding
	if a.Const != nil && a.Ty == nil && b.Const != nil && b.Ty == nil {
		switch n.Op {
		case token.EQL, token.NEQ, token.LSS, token.LEQ, token.GTR, token.GEQ:
			return untyped(constant.MakeBool(constant.Compare(a.Const, n.Op, b.Const))), nil
		case token.LAND, token.LOR, token.ADD, token.SUB, token.MUL, token.REM:
			return untyped(constant.BinaryOp(a.Const, n.Op, b.Const)), nil
		case token.QUO:
			op := token.QUO
			if a.Const.Kind() == constant.Int && b.Const.Kind() == constant.Int {
				op = token.QUO_ASSIGN
			}
			return untyped(constant.BinaryOp(a.Const, op, b.Const)), nil
		}
	}
	// nil comparisons
	if a.T == "$nil" || b.T == "$nil" {
		o := a
		if a.T == "$nil" {
			o = b
		}
		var isnil string
		switch o.Ty.Underlying().(type) {
		case *types.Interface:
			isnil = eq("(if.tag "+o.T+")", "0")
		case *types.Slice:
			isnil = eq("(sl.base "+o.T+")", "0")
		default:
			isnil = eq(o.T, "0")
		}
		if n.Op == token.EQL {
			return Val{T: isnil, Ty: types.Typ[types.Bool]}, nil
		}
		return Val{T: not(isnil), Ty: types.Typ[types.Bool]}, nil
	}
	// typing
	var t types.Type
	switch {
	case a.Ty != nil && b.Ty != nil:
		t = a.Ty
		// int vs real mismatch: promote int to real (specification convenience)
		if isInteger(a.Ty) && isFloat(b.Ty) {
			a = Val{T: "(to_real " + a.T + ")", Ty: b.Ty}
			t = b.Ty
		} else if isFloat(a.Ty) && isInteger(b.Ty) {
			b = Val{T: "(to_real " + b.T + ")", Ty: a.Ty}
		} else if isInterface(a.Ty) && !isInterface(b.Ty) {
			b = Val{T: e.fc.makeIface(e.st, b), Ty: a.Ty}
		} else if isInterface(b.Ty) && !isInterface(a.Ty) {
			a = Val{T: e.fc.makeIface(e.st, a), Ty: b.Ty}
			t = b.Ty
		}
	case a.Ty != nil:
		t = a.Ty
		b = e.coerce(b, t)
	case b.Ty != nil:
		t = b.Ty
		a = e.coerce(a, t)
	default:
		a = e.coerce(a, nil)
		b = e.coerce(b, a.Ty)
		t = a.Ty
	}
	if a.Ty != nil && b.Ty != nil && (n.Op == token.EQL || n.Op == token.NEQ) {
		// a comparison between values of different sorts is a specification error (reported as such),
		// not an ill-formed solver script
		if sa, sb := e.fc.S().SortOf(a.Ty), e.fc.S().SortOf(b.Ty); sa != sb {
			return Val{}, fmt.Errorf("mismatched types %s and %s in comparison", a.Ty, b.Ty)
		}
	}
	boolT := types.Typ[types.Bool]
	if _, isSl := t.Underlying().(*types.Slice); isSl && (n.Op == token.EQL || n.Op == token.NEQ) {
		// specification-level identity of slice values (same backing array, offset, length, capacity)
		r := eq(a.T, b.T)
		if n.Op == token.NEQ {
			r = not(r)
		}
		return Val{T: r, Ty: boolT}, nil
	}
	switch n.Op {
	case token.LAND:
		return Val{T: and(a.T, b.T), Ty: boolT}, nil
	case token.LOR:
		return Val{T: or(a.T, b.T), Ty: boolT}, nil
	}
	res, ok := e.fc.binop(e.st, n.Op, a, b, t, t, token.NoPos, true)
	if !ok {
		return Val{}, fmt.Errorf("unsupported operator %s on %s", n.Op, t)
	}
	switch n.Op {
	case token.EQL, token.NEQ, token.LSS, token.LEQ, token.GTR, token.GEQ:
		return Val{T: res, Ty: boolT}, nil
	}
	return Val{T: res, Ty: t}, nil
}

func (e *SpecEnv) resolveType(x ast.Expr) types.Type {
	switch n := x.(type) {
	case *ast.Ident:
		if t := types.Universe.Lookup(n.Name); t != nil {
			if tn, ok := t.(*types.TypeName); ok {
				return tn.Type()
			}
		}
		if e.pkg != nil {
			if obj, ok := e.pkg.Pkg.Scope().Lookup(n.Name).(*types.TypeName); ok {
				return obj.Type()
			}
		}
	case *ast.SelectorExpr:
		if id, ok := n.X.(*ast.Ident); ok {
			if p := e.importedPkg(id.Name); p != nil {
				if obj, ok := p.Scope().Lookup(n.Sel.Name).(*types.TypeName); ok {
					return obj.Type()
				}
			}
		}
	case *ast.StarExpr:
		if t := e.resolveType(n.X); t != nil {
			return types.NewPointer(t)
		}
	case *ast.ArrayType:
		if et := e.resolveType(n.Elt); et != nil {
			if n.Len == nil {
				return types.NewSlice(et)
			}
			if bl, ok := n.Len.(*ast.BasicLit); ok {
				k, _ := strconv.ParseInt(bl.Value, 10, 64)
				return types.NewArray(et, k)
			}
		}
	case *ast.ParenExpr:
		return e.resolveType(n.X)
	}
	return nil
}

func (e *SpecEnv) evalComposite(n *ast.CompositeLit) (Val, error) {
	t := e.resolveType(n.Type)
	if t == nil {
		return Val{}, fmt.Errorf("unknown type in composite literal")
	}
	switch u := t.Underlying().(type) {
	case *types.Struct:
		ss := e.fc.S().structOf(t)
		parts := make([]string, len(ss.fields))
		for i := range parts {
			parts[i] = e.fc.S().Zero(ss.ftypes[i])
		}
		for i, el := range n.Elts {
			idx := i
			valx := el
			if kv, ok := el.(*ast.KeyValueExpr); ok {
				name := kv.Key.(*ast.Ident).Name
				idx = -1
				for j := 0; j < u.NumFields(); j++ {
					if u.Field(j).Name() == name {
						idx = j
					}
				}
				if idx < 0 {
					return Val{}, fmt.Errorf("no field %s", name)
				}
				valx = kv.Value
			}
			v, err := e.eval(valx)
			if err != nil {
				return Val{}, err
			}
			v = e.coerce(v, ss.ftypes[idx])
			parts[idx] = v.T
		}
		if len(parts) == 0 {
			return Val{T: ss.ctor, Ty: t}, nil
		}
		return Val{T: "(" + ss.ctor + " " + strings.Join(parts, " ") + ")", Ty: t}, nil
	case *types.Array:
		term := e.fc.S().Zero(t)
		for i, el := range n.Elts {
			v, err := e.eval(el)
			if err != nil {
				return Val{}, err
			}
			v = e.coerce(v, u.Elem())
			term = fmt.Sprintf("(store %s %d %s)", term, i, v.T)
		}
		return Val{T: term, Ty: t}, nil
	}
	return Val{}, fmt.Errorf("unsupported composite literal of %s", t)
}

func (e *SpecEnv) evalCall(n *ast.CallExpr) (Val, error) {
	boolT := types.Typ[types.Bool]
	if id, ok := n.Fun.(*ast.Ident); ok {
		switch id.Name {
		case "$imp", "$iff":
			ea, eb := e.withPol(-e.pol), e
			if id.Name == "$iff" {
				ea, eb = e.withPol(0), e.withPol(0)
			}
			a, err := ea.evalBool(n.Args[0])
			if err != nil {
				return Val{}, err
			}
			b, err := eb.evalBool(n.Args[1])
			if err != nil {
				return Val{}, err
			}
			if id.Name == "$imp" {
				return Val{T: implies(a, b), Ty: boolT}, nil
			}
			return Val{T: eq(a, b), Ty: boolT}, nil
		case "old":
			if e.old == nil {
				return Val{}, fmt.Errorf("old() not available here")
			}
			o := *e
			o.st = e.old
			if e.oldVars != nil {
				o.vars = map[string]Val{}
				for k, v := range e.vars {
					o.vars[k] = v
				}
				for k, v := range e.oldVars {
					o.vars[k] = v
				}
			}
			return o.eval(n.Args[0])
		case "forall", "exists":
			// forall(i, lo, hi, body): integer-bounded
			if len(n.Args) != 4 {
				return Val{}, fmt.Errorf("%s(i, lo, hi, body)", id.Name)
			}
			iv, ok := n.Args[0].(*ast.Ident)
			if !ok {
				return Val{}, fmt.Errorf("bound variable expected")
			}
			lo, err := e.eval(n.Args[1])
			if err != nil {
				return Val{}, err
			}
			hi, err := e.eval(n.Args[2])
			if err != nil {
				return Val{}, err
			}
			lo = e.coerce(lo, types.Typ[types.Int])
			hi = e.coerce(hi, types.Typ[types.Int])
			if l, ok1 := smallConst(lo.T); ok1 {
				if h, ok2 := smallConst(hi.T); ok2 && h-l <= 96 {
					// literal range: expand
					var parts []string
					for k := l; k < h; k++ {
						sub := *e
						sub.bound = map[string]Val{}
						for kk, v := range e.bound {
							sub.bound[kk] = v
						}
						sub.bound[iv.Name] = Val{T: fmt.Sprintf("%d", k), Ty: types.Typ[types.Int]}
						b, err := sub.evalBool(n.Args[3])
						if err != nil {
							return Val{}, err
						}
						parts = append(parts, b)
					}
					if id.Name == "forall" {
						return Val{T: and(parts...), Ty: boolT}, nil
					}
					return Val{T: or(parts...), Ty: boolT}, nil
				}
			}
			skolem := e.fc.defs.inline == 0 && ((id.Name == "forall" && e.pol > 0) || (id.Name == "exists" && e.pol < 0))
			var bn string
			if skolem {
				bn = e.fc.defs.Declare("sk."+iv.Name, "Int")
				e.fc.top.curSkolems = append(e.fc.top.curSkolems, modelInput{Name: iv.Name, Term: bn, Ty: types.Typ[types.Int]})
			} else {
				bn = e.fc.defs.fresh("q." + iv.Name)
			}
			sub := *e
			sub.bound = map[string]Val{}
			for k, v := range e.bound {
				sub.bound[k] = v
			}
			sub.bound[iv.Name] = Val{T: bn, Ty: types.Typ[types.Int]}
			var body string
			pats := ""
			if !skolem {
				e.fc.defs.PushBinder()
				body, err = sub.underBinder(n.Args[3], id.Name == "forall")
				if err == nil && id.Name == "forall" {
					var outer []string
					for _, v := range e.bound {
						if strings.HasPrefix(v.T, "q.") {
							outer = append(outer, v.T)
						}
					}
					pats = e.fc.defs.binderPatterns(body, bn, outer...)
				}
				body = e.fc.defs.PopBinder(body)
			} else {
				body, err = sub.evalBool(n.Args[3])
			}
			if err != nil {
				return Val{}, err
			}
			rng := fmt.Sprintf("(and (<= %s %s) (< %s %s))", lo.T, bn, bn, hi.T)
			if skolem {
				if id.Name == "forall" {
					return Val{T: implies(rng, body), Ty: boolT}, nil
				}
				return Val{T: and(rng, body), Ty: boolT}, nil
			}
			if id.Name == "forall" {
				if pats != "" {
					return Val{T: fmt.Sprintf("(forall ((%s Int)) (! (=> %s %s) %s))", bn, rng, body, pats), Ty: boolT}, nil
				}
				return Val{T: fmt.Sprintf("(forall ((%s Int)) (=> %s %s))", bn, rng, body), Ty: boolT}, nil
			}
			return Val{T: fmt.Sprintf("(exists ((%s Int)) (and %s %s))", bn, rng, body), Ty: boolT}, nil
		case "forallR", "forallI", "existsI", "existsR":
			// forallR(x, y, ..., body)
			if len(n.Args) < 2 {
				return Val{}, fmt.Errorf("%s(x, ..., body)", id.Name)
			}
			sub := *e
			sub.bound = map[string]Val{}
			for k, v := range e.bound {
				sub.bound[k] = v
			}
			srt, ty := "Real", types.Type(types.Typ[types.Float64])
			if strings.HasSuffix(id.Name, "I") {
				srt, ty = "Int", types.Typ[types.Int]
			}
			var decls []string
			isAll := strings.HasPrefix(id.Name, "forall")
			skolem := e.fc.defs.inline == 0 && ((isAll && e.pol > 0) || (!isAll && e.pol < 0))
			for _, a := range n.Args[:len(n.Args)-1] {
				iv, ok := a.(*ast.Ident)
				if !ok {
					return Val{}, fmt.Errorf("bound variable expected")
				}
				var bn string
				if skolem {
					bn = e.fc.defs.Declare("sk."+iv.Name, srt)
					e.fc.top.curSkolems = append(e.fc.top.curSkolems, modelInput{Name: iv.Name, Term: bn, Ty: ty})
				} else {
					bn = e.fc.defs.fresh("q." + iv.Name)
				}
				sub.bound[iv.Name] = Val{T: bn, Ty: ty}
				decls = append(decls, fmt.Sprintf("(%s %s)", bn, srt))
			}
			var body string
			var err error
			if !skolem {
				e.fc.defs.PushBinder()
				body, err = sub.underBinder(n.Args[len(n.Args)-1], isAll)
				body = e.fc.defs.PopBinder(body)
			} else {
				body, err = sub.evalBool(n.Args[len(n.Args)-1])
			}
			if err != nil {
				return Val{}, err
			}
			if skolem {
				return Val{T: body, Ty: boolT}, nil
			}
			q := "forall"
			if strings.HasPrefix(id.Name, "exists") {
				q = "exists"
			}
			return Val{T: fmt.Sprintf("(%s (%s) %s)", q, strings.Join(decls, " "), body), Ty: boolT}, nil
		case "len", "cap":
			v, err := e.eval(n.Args[0])
			if err != nil {
				return Val{}, err
			}
			if v.Const != nil && v.Ty == nil {
				return untyped(constant.MakeInt64(int64(len(constant.StringVal(v.Const))))), nil
			}
			intT := types.Typ[types.Int]
			switch u := v.Ty.Underlying().(type) {
			case *types.Slice:
				if id.Name == "cap" {
					return Val{T: "(sl.cap " + v.T + ")", Ty: intT}, nil
				}
				return Val{T: "(sl.len " + v.T + ")", Ty: intT}, nil
			case *types.Basic:
				return Val{T: e.fc.strLen(v.T), Ty: intT}, nil
			case *types.Array:
				return Val{T: fmt.Sprintf("%d", u.Len()), Ty: intT}, nil
			case *types.Map:
				return Val{T: e.fc.mapLen(e.st, v), Ty: intT}, nil
			case *types.Pointer:
				if a, ok := u.Elem().Underlying().(*types.Array); ok {
					return Val{T: fmt.Sprintf("%d", a.Len()), Ty: intT}, nil
				}
			}
			return Val{}, fmt.Errorf("len of %s", v.Ty)
		case "ite":
			c, err := e.evalBool(n.Args[0])
			if err != nil {
				return Val{}, err
			}
			a, err := e.eval(n.Args[1])
			if err != nil {
				return Val{}, err
			}
			b, err := e.eval(n.Args[2])
			if err != nil {
				return Val{}, err
			}
			if a.Ty == nil {
				a = e.coerce(a, b.Ty)
			}
			b = e.coerce(b, a.Ty)
			if isFloat(a.Ty) && isInteger(b.Ty) {
				b = Val{T: "(to_real " + b.T + ")", Ty: a.Ty}
			}
			return Val{T: ite(c, a.T, b.T), Ty: a.Ty}, nil
		case "tan", "sin", "cos", "sqrt", "atan2":
			var args []string
			var srts []string
			for _, a := range n.Args {
				v, err := e.eval(a)
				if err != nil {
					return Val{}, err
				}
				v = e.coerce(v, types.Typ[types.Float64])
				args = append(args, v.T)
				srts = append(srts, "Real")
			}
			e.fc.eng.declMath("math." + strings.ToUpper(id.Name[:1]) + id.Name[1:])
			return Val{T: app("math."+strings.ToUpper(id.Name[:1])+id.Name[1:], args...), Ty: types.Typ[types.Float64]}, nil
		case "sum":
			// sum(s, lo, hi): the mathematical sum of s[lo..hi) for a slice of numbers (0 when lo >= hi).
			// An uninterpreted function of (element heap, slice, lo, hi) whose defining equations and
			// extensionality are instantiated per occurrence when the script is built (sumtheory.go).
			if len(n.Args) != 3 {
				return Val{}, fmt.Errorf("sum(s, lo, hi)")
			}
			sv, err := e.withPol(0).eval(n.Args[0])
			if err != nil {
				return Val{}, err
			}
			st, ok := sv.Ty.Underlying().(*types.Slice)
			if !ok || !(isInteger(st.Elem()) || isFloat(st.Elem())) {
				return Val{}, fmt.Errorf("sum: not a slice of numbers")
			}
			lo, err := e.withPol(0).eval(n.Args[1])
			if err != nil {
				return Val{}, err
			}
			hi, err := e.withPol(0).eval(n.Args[2])
			if err != nil {
				return Val{}, err
			}
			lo, hi = e.coerce(lo, types.Typ[types.Int]), e.coerce(hi, types.Typ[types.Int])
			srt := e.fc.S().SortOf(st.Elem())
			hn, hs := e.fc.heapElemName(st.Elem())
			h := e.fc.heapGet(e.st, hn, hs)
			fname := "sum." + srt
			e.fc.S().UFun(fname, []string{hs, "Slice", "Int", "Int"}, srt)
			return Val{T: app(fname, h, sv.T, lo.T, hi.T), Ty: st.Elem()}, nil
		case "first", "second":
			// first(f(...)) / second(f(...)): a component of a call with several results
			if len(n.Args) != 1 {
				return Val{}, fmt.Errorf("%s(call)", id.Name)
			}
			v, err := e.eval(n.Args[0])
			if err != nil {
				return Val{}, err
			}
			k := 0
			if id.Name == "second" {
				k = 1
			}
			if len(v.Tup) <= k {
				return Val{}, fmt.Errorf("%s: not a call with several results", id.Name)
			}
			return v.Tup[k], nil
		case "haskey":
			// haskey(m, k): k is a key of map m
			if len(n.Args) != 2 {
				return Val{}, fmt.Errorf("haskey(m, k)")
			}
			m, err := e.eval(n.Args[0])
			if err != nil {
				return Val{}, err
			}
			mt, ok := m.Ty.Underlying().(*types.Map)
			if !ok {
				return Val{}, fmt.Errorf("haskey: not a map")
			}
			k, err := e.eval(n.Args[1])
			if err != nil {
				return Val{}, err
			}
			_, dom := e.fc.mapLookup(e.st, m, e.coerce(k, mt.Key()))
			return Val{T: dom, Ty: boolT}, nil
		case "in":
			// in(x, a, b, c...): x equals one of the listed values
			v, err := e.eval(n.Args[0])
			if err != nil {
				return Val{}, err
			}
			var alts []string
			for _, a := range n.Args[1:] {
				w, err := e.eval(a)
				if err != nil {
					return Val{}, err
				}
				w = e.coerce(w, v.Ty)
				alts = append(alts, e.fc.goEq(v, w, v.Ty))
			}
			return Val{T: or(alts...), Ty: boolT}, nil
		case "real":
			v, err := e.eval(n.Args[0])
			if err != nil {
				return Val{}, err
			}
			if v.Ty == nil {
				return e.coerce(v, types.Typ[types.Float64]), nil
			}
			if isInteger(v.Ty) {
				return Val{T: "(to_real " + v.T + ")", Ty: types.Typ[types.Float64]}, nil
			}
			return v, nil
		case "fresh":
			// fresh(x): the object x points to (or x's backing array) was allocated by this
			// function invocation (or x is nil): it cannot alias anything the caller can see
			v, err := e.eval(n.Args[0])
			if err != nil {
				return Val{}, err
			}
			a0 := e.fc.top.entry.alloc
			switch v.Ty.Underlying().(type) {
			case *types.Slice:
				b := e.fc.slBase(v.T)
				return Val{T: fmt.Sprintf("(or (= %s 0) (>= %s %s))", b, b, a0), Ty: boolT}, nil
			default:
				return Val{T: fmt.Sprintf("(or (= %s 0) (>= %s %s))", v.T, v.T, a0), Ty: boolT}, nil
			}
		case "calls":
			// calls(f): how many calls to f (named as in `call f#k` clauses) this invocation has made so far
			id, ok := n.Args[0].(*ast.Ident)
			if !ok || len(n.Args) != 1 {
				return Val{}, fmt.Errorf("calls(f) takes a callee name")
			}
			if !e.fc.top.countCalls[id.Name] {
				return Val{}, fmt.Errorf("calls(%s): internal error, name not registered", id.Name)
			}
			return Val{T: e.st.callCount(id.Name), Ty: types.Typ[types.Int]}, nil
		case "callresult":
			// callresult(f, k): what the k-th call site of f returned when it was last executed (a tuple for
			// several results: pick with first(...) / second(...))
			id, ok := n.Args[0].(*ast.Ident)
			lit, ok2 := n.Args[1].(*ast.BasicLit)
			if !ok || !ok2 || len(n.Args) != 2 {
				return Val{}, fmt.Errorf("callresult(f, k) takes a callee name and a call-site ordinal")
			}
			v, has := e.fc.top.callResults[id.Name+"#"+lit.Value]
			if !has {
				return Val{}, fmt.Errorf("callresult(%s, %s): that call site has not been executed here (or returns nothing)", id.Name, lit.Value)
			}
			return v, nil
		case "samebase":
			// samebase(a, b): two slices share their backing array
			a, err := e.eval(n.Args[0])
			if err != nil {
				return Val{}, err
			}
			b, err := e.eval(n.Args[1])
			if err != nil {
				return Val{}, err
			}
			return Val{T: eq(e.fc.slBase(a.T), e.fc.slBase(b.T)), Ty: boolT}, nil
		case "alloc":
			// allocated(p): p was allocated in the current state
			v, err := e.eval(n.Args[0])
			if err != nil {
				return Val{}, err
			}
			return Val{T: fmt.Sprintf("(and (< 0 %s) (< %s %s))", v.T, v.T, e.st.alloc), Ty: boolT}, nil
		case "typeIs":
			// typeIs(x, T): dynamic type of interface value x is T
			v, err := e.eval(n.Args[0])
			if err != nil {
				return Val{}, err
			}
			t := e.resolveType(n.Args[1])
			if t == nil {
				return Val{}, fmt.Errorf("unknown type in typeIs")
			}
			return Val{T: eq("(if.tag "+v.T+")", fmt.Sprintf("%d", e.fc.S().Tag(t))), Ty: boolT}, nil
		}
		// type conversion?
		if t := e.resolveType(n.Fun); t != nil && len(n.Args) == 1 {
			if _, isFn := e.lookupFunc(id.Name); !isFn {
				return e.convert(n.Args[0], t)
			}
		}
	}
	// conversion through selector type pr.Float(x)
	if sel, ok := n.Fun.(*ast.SelectorExpr); ok && len(n.Args) == 1 {
		if t := e.resolveType(sel); t != nil {
			return e.convert(n.Args[0], t)
		}
	}
	if _, ok := n.Fun.(*ast.ParenExpr); ok && len(n.Args) == 1 {
		if t := e.resolveType(n.Fun); t != nil {
			return e.convert(n.Args[0], t)
		}
	}
	// pure interface method: same uninterpreted function as at code call sites
	if sel, ok := n.Fun.(*ast.SelectorExpr); ok {
		if v, done, err := e.ifaceCall(sel, n.Args); done {
			return v, err
		}
	}
	// function or method call: inline
	fn, recv, err := e.resolveCallee(n.Fun)
	if err != nil {
		return Val{}, err
	}
	var args []Val
	if recv != nil {
		args = append(args, *recv)
	}
	sig := fn.Signature
	for i, a := range n.Args {
		v, err := e.eval(a)
		if err != nil {
			return Val{}, err
		}
		var pt types.Type
		if i < sig.Params().Len() {
			pt = sig.Params().At(i).Type()
		}
		if v.T == "$nil" && pt != nil {
			v = Val{T: e.fc.S().Zero(pt), Ty: pt}
		}
		v = e.coerce(v, pt)
		if pt != nil && isInterface(pt) && v.Ty != nil && !isInterface(v.Ty) {
			v = Val{T: e.fc.makeIface(e.st, v), Ty: pt}
		}
		args = append(args, v)
	}
	return e.fc.specCall(e.st, fn, args)
}

func (e *SpecEnv) convert(x ast.Expr, t types.Type) (Val, error) {
	v, err := e.eval(x)
	if err != nil {
		return Val{}, err
	}
	if v.Ty == nil {
		return e.coerce(v, t), nil
	}
	switch {
	case isInteger(v.Ty) && isFloat(t):
		return Val{T: "(to_real " + v.T + ")", Ty: t}, nil
	case isFloat(v.Ty) && isInteger(t):
		return Val{T: "(rtrunc " + v.T + ")", Ty: t}, nil
	case isInterface(t) && !isInterface(v.Ty):
		return Val{T: e.fc.makeIface(e.st, v), Ty: t}, nil
	case isInteger(v.Ty) && isString(t):
		return Val{T: e.fc.runeStr(v.T), Ty: t}, nil
	}
	if e.fc.S().SortOf(v.Ty) == e.fc.S().SortOf(t) {
		return Val{T: v.T, Ty: t}, nil
	}
	return Val{}, fmt.Errorf("cannot convert %s to %s", v.Ty, t)
}

func (e *SpecEnv) lookupFunc(name string) (*ssa.Function, bool) {
	if e.pkg == nil {
		return nil, false
	}
	if f := e.pkg.Func(name); f != nil {
		return f, true
	}
	return nil, false
}

func (e *SpecEnv) resolveCallee(fun ast.Expr) (*ssa.Function, *Val, error) {
	switch n := fun.(type) {
	case *ast.Ident:
		if f, ok := e.lookupFunc(n.Name); ok {
			return f, nil, nil
		}
		return nil, nil, fmt.Errorf("unknown function %s", n.Name)
	case *ast.SelectorExpr:
		if id, ok := n.X.(*ast.Ident); ok {
			_, isVar := e.vars[id.Name]
			_, isBound := e.bound[id.Name]
			_, isLet := e.lets[id.Name]
			if !isVar && !isBound && !isLet {
				if p := e.importedPkg(id.Name); p != nil {
					sp := e.fc.eng.prog.Package(p)
					if sp != nil {
						if f := sp.Func(n.Sel.Name); f != nil {
							return f, nil, nil
						}
					}
					return nil, nil, fmt.Errorf("unknown function %s.%s", id.Name, n.Sel.Name)
				}
			}
		}
		recv, err := e.eval(n.X)
		if err != nil {
			return nil, nil, err
		}
		if recv.Ty == nil {
			return nil, nil, fmt.Errorf("method call on untyped value")
		}
		var pk *types.Package
		if e.pkg != nil {
			pk = e.pkg.Pkg
		}
		obj, index, _ := types.LookupFieldOrMethod(recv.Ty, true, pk, n.Sel.Name)
		mf, ok := obj.(*types.Func)
		if !ok {
			// unexported method of another package
			mf = lookupMethodAnyPkg(recv.Ty, n.Sel.Name)
			if mf == nil {
				return nil, nil, fmt.Errorf("no method %s on %s", n.Sel.Name, recv.Ty)
			}
			index = []int{0}
		}
		// walk embedded fields
		cur := recv
		for _, ix := range index[:len(index)-1] {
			var stt *types.Struct
			if pt, ok := cur.Ty.Underlying().(*types.Pointer); ok {
				stt = pt.Elem().Underlying().(*types.Struct)
				l := (&LVal{Kind: lvHeap, Ptr: cur.T, Base: pt.Elem()}).extend(PathElem{Field: ix, From: pt.Elem(), To: stt.Field(ix).Type()})
				cur = Val{T: e.fc.readLVal(e.st, l), Ty: stt.Field(ix).Type()}
			} else {
				stt = cur.Ty.Underlying().(*types.Struct)
				cur = Val{T: e.fc.fieldOf(cur.Ty, ix, cur.T), Ty: stt.Field(ix).Type()}
			}
		}
		fn := e.fc.eng.prog.FuncValue(mf)
		if fn == nil {
			return nil, nil, fmt.Errorf("no SSA function for method %s", mf.FullName())
		}
		rt := mf.Type().(*types.Signature).Recv().Type()
		_, wantPtr := rt.Underlying().(*types.Pointer)
		_, havePtr := cur.Ty.Underlying().(*types.Pointer)
		if !wantPtr && havePtr && !isInterface(rt) {
			pt := cur.Ty.Underlying().(*types.Pointer)
			cur = Val{T: e.fc.readLVal(e.st, &LVal{Kind: lvHeap, Ptr: cur.T, Base: pt.Elem()}), Ty: pt.Elem()}
		} else if wantPtr && !havePtr {
			return nil, nil, fmt.Errorf("method %s needs a pointer receiver", mf.Name())
		}
		return fn, &cur, nil
	}
	return nil, nil, fmt.Errorf("unsupported callee expression %T", fun)
}

func lookupMethodAnyPkg(t types.Type, name string) *types.Func {
	ms := types.NewMethodSet(t)
	for i := 0; i < ms.Len(); i++ {
		if ms.At(i).Obj().Name() == name {
			return ms.At(i).Obj().(*types.Func)
		}
	}
	if _, ok := t.Underlying().(*types.Pointer); !ok {
		ms = types.NewMethodSet(types.NewPointer(t))
		for i := 0; i < ms.Len(); i++ {
			if ms.At(i).Obj().Name() == name {
				return ms.At(i).Obj().(*types.Func)
			}
		}
	}
	return nil
}

// quantPatterns picks E-matching patterns for a quantifier over bound variable bn:
// every application (sl.ix S bn), (s.ix S bn) or (select A bn) occurring in body
// whose other argument does not mention a bound variable. Each is an alternative.
func quantPatterns(body, bn string) string {
	return strings.Join(quantPatternList(body, bn, nil), " ")
}

var boundNameRe = regexp.MustCompile(`q\.[A-Za-z0-9_.]+\$[0-9]+`)

// mentionsOtherBound reports whether t names a bound variable other than the allowed ones
// (the pattern's own variable and the binders that are still open around it).
func mentionsOtherBound(t string, allowed []string) bool {
	if !strings.Contains(t, "q.") {
		return false
	}
	for _, m := range boundNameRe.FindAllString(t, -1) {
		ok := false
		for _, a := range allowed {
			if a == m {
				ok = true
			}
		}
		if !ok {
			return true
		}
	}
	return false
}

// binderPatterns looks for pattern terms in the body and in the let-bindings of the
// innermost open binder; let-bound names inside a pattern are expanded.
func (d *Defs) binderPatterns(body, bn string, outer ...string) string {
	texts := []string{body}
	if len(d.lets) > 0 {
		for _, l := range d.lets[len(d.lets)-1] {
			texts = append(texts, l.body)
		}
	}
	seen := map[string]bool{}
	var out []string
	for _, t := range texts {
		for _, p := range quantPatternList(t, bn, d, outer...) {
			if !seen[p] && !letNameRe.MatchString(p) && len(p) < 2000 {
				seen[p] = true
				out = append(out, p)
			}
		}
	}
	if len(out) > 4 {
		out = out[:4]
	}
	return strings.Join(out, " ")
}

// letNameRe matches an unexpanded binder-local let name (l$12) as a whole token.
var letNameRe = regexp.MustCompile(`(^|[ (])l\$[0-9]+`)

func quantPatternList(body, bn string, d *Defs, outer ...string) []string {
	seen := map[string]bool{}
	var pats []string
	for _, head := range []string{"(sl.ix ", "(s.ix ", "(select "} {
		from := 0
		for {
			i := strings.Index(body[from:], head)
			if i < 0 {
				break
			}
			start := from + i
			from = start + len(head)
			// parse first argument
			j := start + len(head)
			arg1End := skipSexp(body, j)
			if arg1End < 0 || arg1End >= len(body) || body[arg1End] != ' ' {
				continue
			}
			rest := body[arg1End+1:]
			if !strings.HasPrefix(rest, bn+")") {
				continue
			}
			arg1 := body[j:arg1End]
			if mentionsOtherBound(arg1, outer) { // mentions a bound variable that is not in scope
				continue
			}
			term := body[start : arg1End+1+len(bn)+1]
			if d != nil {
				term = d.expandLets(term)
				if mentionsOtherBound(term, append([]string{bn}, outer...)) {
					continue
				}
			}
			if strings.Contains(term, "(ite ") {
				// `ite` is not allowed in patterns: name the (closed) sequence term; the defining
				// equation puts it in the same congruence class as the ite term
				if d == nil || head == "(select " || strings.Contains(arg1, "q.") || letNameRe.MatchString(arg1) {
					continue
				}
				a1 := d.expandLets(arg1)
				if strings.Contains(a1, "q.") || letNameRe.MatchString(a1) {
					continue
				}
				srt := "Slice"
				if head == "(s.ix " {
					srt = "Str"
				}
				term = head + d.DefineGlobal("pat", srt, a1) + " " + bn + ")"
			}
			if !seen[term] {
				seen[term] = true
				pats = append(pats, ":pattern ("+term+")")
			}
		}
	}
	if len(pats) > 4 {
		pats = pats[:4]
	}
	return pats
}

// skipSexp returns the index just after the s-expression starting at i.
func skipSexp(s string, i int) int {
	if i >= len(s) {
		return -1
	}
	if s[i] != '(' {
		for i < len(s) && s[i] != ' ' && s[i] != ')' {
			i++
		}
		return i
	}
	depth := 0
	for ; i < len(s); i++ {
		switch s[i] {
		case '(':
			depth++
		case ')':
			depth--
			if depth == 0 {
				return i + 1
			}
		}
	}
	return -1
}

// ifaceCall handles x.M(args) where x has interface type and M has an assumed pure
// interface contract: the result is the uninterpreted function used at code call sites.
func (e *SpecEnv) ifaceCall(sel *ast.SelectorExpr, argx []ast.Expr) (Val, bool, error) {
	if id, ok := sel.X.(*ast.Ident); ok {
		_, isVar := e.vars[id.Name]
		_, isBound := e.bound[id.Name]
		_, isLet := e.lets[id.Name]
		if !isVar && !isBound && !isLet && e.ghost == nil && e.importedPkg(id.Name) != nil {
			return Val{}, false, nil
		}
		if !isVar && !isBound && !isLet && e.importedPkg(id.Name) != nil {
			if _, ok := e.ghost(id.Name); !ok {
				return Val{}, false, nil
			}
		}
	}
	recv, err := e.eval(sel.X)
	if err != nil || recv.Ty == nil || !isInterface(recv.Ty) {
		return Val{}, false, nil
	}
	it := recv.Ty.Underlying().(*types.Interface)
	var m *types.Func
	for i := 0; i < it.NumMethods(); i++ {
		if it.Method(i).Name() == sel.Sel.Name {
			m = it.Method(i)
		}
	}
	if m == nil {
		return Val{}, true, fmt.Errorf("no method %s on %s", sel.Sel.Name, recv.Ty)
	}
	c := e.fc.eng.ifaceContract(recv.Ty, m.Name())
	if c == nil || !c.Pure {
		return Val{}, true, fmt.Errorf("interface method %s.%s has no pure contract", typeKey(recv.Ty), m.Name())
	}
	sig := m.Type().(*types.Signature)
	if sig.Results().Len() == 0 {
		return Val{}, true, fmt.Errorf("interface method %s has no result", m.Name())
	}
	var args []Val
	for i, a := range argx {
		v, err := e.eval(a)
		if err != nil {
			return Val{}, true, err
		}
		args = append(args, e.coerce(v, sig.Params().At(i).Type()))
	}
	if sig.Results().Len() > 1 {
		// a tuple: pick a component with first(...) / second(...)
		var tup []Val
		for i := 0; i < sig.Results().Len(); i++ {
			tup = append(tup, e.fc.ifaceApp(recv, fmt.Sprintf("%s.r%d", m.Name(), i), args, sig.Results().At(i).Type()))
		}
		return Val{Tup: tup, Ty: sig.Results()}, true, nil
	}
	app := e.fc.ifaceApp(recv, m.Name(), args, sig.Results().At(0).Type())
	// the assumed contract of the method also holds of this application (closed terms only:
	// under a binder the application mentions bound variables and cannot be named globally)
	if len(c.Ensures) > 0 && e.fc.defs.inline == 0 && !strings.Contains(app.T, "q.") && !e.inIfaceFacts {
		name := e.fc.defs.Define("ifapp", e.fc.S().SortOf(app.Ty), app.T)
		if name != app.T && e.fc.defs.byName[name] != nil && len(e.fc.defs.byName[name].axioms) == 0 {
			env := &SpecEnv{fc: e.fc, st: e.st, vars: map[string]Val{"self": recv, "result": {T: name, Ty: app.Ty}}, bound: map[string]Val{}, pkg: e.pkg, lets: letsOf(c), inIfaceFacts: true}
			if mp := m.Pkg(); mp != nil {
				if sp := e.fc.eng.prog.Package(mp); sp != nil {
					env.pkg = sp
				}
			}
			for i, a := range args {
				if n := sig.Params().At(i).Name(); n != "" {
					env.vars[n] = a
				}
			}
			for _, en := range c.Ensures {
				if g, err := env.assumption(en.Expr); err == nil {
					e.fc.defs.Axiom(name, g)
				}
			}
		}
		app.T = name
	}
	return app, true, nil
}
