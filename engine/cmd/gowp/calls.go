package main

// Calls: builtins, contracts (assert pre / havoc frame / assume post), inlining,
// unknown callees (havoc), maps, range iteration.

import (
	"fmt"
	"go/ast"
	"go/constant"
	"go/token"
	"go/types"
	"sort"
	"strings"

	"golang.org/x/tools/go/ssa"
)

const maxInlineDepth = 8

var mathFuns = map[string]int{
	"math.Tan": 1, "math.Sin": 1, "math.Cos": 1, "math.Sqrt": 1, "math.Atan2": 2, "math.Atan": 1,
	"math.Pow": 2, "math.Hypot": 2, "math.Log": 1, "math.Exp": 1, "math.Acos": 1, "math.Asin": 1,
	"math.Mod": 2,
}

func (eng *Engine) declMath(name string) {
	n := mathFuns[name]
	args := make([]string, n)
	for i := range args {
		args[i] = "Real"
	}
	eng.sorts.UFun(name, args, "Real")
	switch name {
	case "math.Sqrt":
		eng.sorts.Axiom("math.Sqrt", "(assert (forall ((x Real)) (! (=> (>= x 0.0) (and (>= (math.Sqrt x) 0.0) (= (* (math.Sqrt x) (math.Sqrt x)) x))) :pattern ((math.Sqrt x)))))")
	case "math.Sin", "math.Cos":
		eng.sorts.UFun("math.Sin", []string{"Real"}, "Real")
		eng.sorts.UFun("math.Cos", []string{"Real"}, "Real")
		eng.sorts.Axiom("math.Sin", "(assert (forall ((x Real)) (! (= (+ (* (math.Sin x) (math.Sin x)) (* (math.Cos x) (math.Cos x))) 1.0) :pattern ((math.Sin x)))))")
	}
}

func (fc *fnCtx) execCall(st *State, x *ssa.Call) {
	common := &x.Call
	if b, ok := common.Value.(*ssa.Builtin); ok {
		fc.execBuiltin(st, x, b)
		return
	}
	var args []Val
	for _, a := range common.Args {
		args = append(args, fc.get(st, a))
	}
	if common.IsInvoke() {
		recv := fc.get(st, common.Value)
		fc.execInvoke(st, x, recv, args)
		return
	}
	callee := common.StaticCallee()
	if callee == nil {
		if n := dynCalleeName(common.Value); n != "" && !fc.inline && !fc.specMode && fc.contract != nil && len(fc.contract.Calls) > 0 {
			// `call <variable>#k assert`: ghost assertion at the k-th call through that function variable
			k := fc.siteOrd(x, n)
			fc.siteAsserts(st, n, fmt.Sprintf("%s@%d", n, k), args)
		}
		fc.unknownCall(st, x, "dynamic call through a function value")
		return
	}
	if _, isClosure := common.Value.(*ssa.MakeClosure); isClosure {
		fc.unknownCall(st, x, "call of closure "+callee.Name())
		return
	}
	res := fc.callFunction(st, x, callee, args, x.Pos())
	fc.bindResults(st, x, res)
}

func (fc *fnCtx) bindResults(st *State, x *ssa.Call, res []Val) {
	sig := x.Call.Signature()
	switch sig.Results().Len() {
	case 0:
		fc.vals[x] = Val{Ty: x.Type()}
	case 1:
		if len(res) == 1 {
			fc.vals[x] = Val{T: fc.defs.Define(x.Name(), fc.S().SortOf(x.Type()), res[0].T), Ty: x.Type()}
		} else {
			fc.vals[x] = fc.freshVal(st, x.Name(), x.Type())
		}
	default:
		if len(res) == sig.Results().Len() {
			fc.vals[x] = Val{Ty: x.Type(), Tup: res}
		} else {
			var tup []Val
			for i := 0; i < sig.Results().Len(); i++ {
				tup = append(tup, fc.freshVal(st, fmt.Sprintf("%s.%d", x.Name(), i), sig.Results().At(i).Type()))
			}
			fc.vals[x] = Val{Ty: x.Type(), Tup: tup}
		}
	}
}

func (fc *fnCtx) unknownCall(st *State, x *ssa.Call, why string) {
	fc.oblige(st, "callee-nopanic", "", "false", "unverified callee may panic: "+why, x.Pos(), false)
	fc.havocAllHeap(st, why)
	fc.bindResults(st, x, nil)
}

// callFunction applies callee to args in state st and returns result values.
func (fc *fnCtx) callFunction(st *State, x *ssa.Call, callee *ssa.Function, args []Val, pos token.Pos) []Val {
	eng := fc.eng
	full := callee.String()
	// materialize address arguments
	for i := range args {
		if args[i].Addr != nil {
			args[i] = Val{T: fc.materialize(st, args[i]), Ty: args[i].Ty}
		}
	}
	// math functions
	if _, ok := mathFuns[full]; ok {
		eng.declMath(full)
		ts := make([]string, len(args))
		for i, a := range args {
			ts[i] = a.T
		}
		return []Val{{T: app(full, ts...), Ty: callee.Signature.Results().At(0).Type()}}
	}
	switch full {
	case "math.Abs":
		return []Val{{T: fmt.Sprintf("(ite (>= %s 0.0) %s (- %s))", args[0].T, args[0].T, args[0].T), Ty: args[0].Ty}}
	case "math.Max":
		return []Val{{T: fmt.Sprintf("(ite (>= %s %s) %s %s)", args[0].T, args[1].T, args[0].T, args[1].T), Ty: args[0].Ty}}
	case "math.Min":
		return []Val{{T: fmt.Sprintf("(ite (<= %s %s) %s %s)", args[0].T, args[1].T, args[0].T, args[1].T), Ty: args[0].Ty}}
	case "math.Floor":
		return []Val{{T: fmt.Sprintf("(to_real (to_int %s))", args[0].T), Ty: args[0].Ty}}
	case "math.Ceil":
		return []Val{{T: fmt.Sprintf("(- (to_real (to_int (- %s))))", args[0].T), Ty: args[0].Ty}}
	}
	c := eng.contractFor(callee)
	var ins ssa.Instruction
	if x != nil {
		ins = x
	}
	ordKey := fc.callOrdinal(callee, ins)
	// caller-side ghost assertions `call f#k assert`
	fc.callSiteAsserts(st, callee, ordKey, args)
	if fc.specMode {
		if v, ok := fc.specByContract(st, callee, args, false); ok {
			return []Val{v}
		}
		if c != nil && c.Pure && !c.Inline && callee.Signature.Results().Len() == 1 && (allScalar(args) || c.PureRefs) {
			if v, err := fc.specCall(st, callee, args); err == nil {
				return []Val{v}
			}
		}
	}
	if fc.specMode || c != nil && c.Inline || (c == nil && eng.autoInline(callee)) {
		if fc.depth < maxInlineDepth {
			if res, ok := fc.inlineCode(st, callee, args); ok {
				fc.top.inlinedFns[eng.funcDisplayName(callee)] = true
				return res
			}
		}
	}
	if c == nil {
		fc.oblige(st, "callee-nopanic", "", "false", "callee without contract may panic: "+eng.funcDisplayName(callee), pos, false)
		fc.havocAllHeap(st, "call "+callee.Name())
		return nil
	}
	fc.top.calleeUsed[eng.funcDisplayName(callee)] = true
	if c.Extern {
		fc.top.externsUsed[c.Ref] = true
	}
	return fc.applyContract(st, callee, c, args, ordKey, pos)
}

// dynCalleeName names a call through a function-typed variable (captured variable, parameter
// or local loaded from its cell) by the variable's source name.
func dynCalleeName(v ssa.Value) string {
	switch x := v.(type) {
	case *ssa.FreeVar:
		return x.Name()
	case *ssa.Parameter:
		return x.Name()
	case *ssa.UnOp:
		if x.Op == token.MUL {
			switch a := x.X.(type) {
			case *ssa.Alloc:
				return a.Comment
			case *ssa.FreeVar:
				return a.Name()
			}
		}
	}
	return ""
}

// siteOrdinals numbers the call sites of each callee name of a function in source order.
func siteOrdinals(fn *ssa.Function) map[ssa.Instruction]int {
	type site struct {
		ins  ssa.Instruction
		pos  token.Pos
		b, i int
	}
	byName := map[string][]site{}
	for _, b := range fn.Blocks {
		for i, ins := range b.Instrs {
			if _, isMU := ins.(*ssa.MapUpdate); isMU {
				byName["mapupdate"] = append(byName["mapupdate"], site{ins, ins.Pos(), b.Index, i})
				continue
			}
			call, ok := ins.(ssa.CallInstruction)
			if !ok {
				continue
			}
			c := call.Common()
			var name string
			if c.IsInvoke() {
				name = c.Method.Name()
			} else if callee := c.StaticCallee(); callee != nil {
				name = callee.Name()
			} else if bi, ok := c.Value.(*ssa.Builtin); ok {
				name = bi.Name()
			} else if n := dynCalleeName(c.Value); n != "" {
				name = n
			} else {
				continue
			}
			byName[name] = append(byName[name], site{ins, ins.Pos(), b.Index, i})
		}
	}
	out := map[ssa.Instruction]int{}
	for _, sites := range byName {
		sort.SliceStable(sites, func(a, b int) bool {
			if sites[a].pos != sites[b].pos && sites[a].pos.IsValid() && sites[b].pos.IsValid() {
				return sites[a].pos < sites[b].pos
			}
			if sites[a].b != sites[b].b {
				return sites[a].b < sites[b].b
			}
			return sites[a].i < sites[b].i
		})
		for k, s := range sites {
			out[s.ins] = k + 1
		}
	}
	return out
}

func (fc *fnCtx) siteOrd(ins ssa.Instruction, name string) int {
	t := fc.top
	if ins != nil && !fc.inline && !fc.specMode {
		t.curPos = ins.Pos()
		t.sitePos = ins.Pos()
	}
	if ins != nil && fc == t || (ins != nil && !fc.inline) {
		if t.callOrds == nil {
			t.callOrds = siteOrdinals(t.fn)
		}
		if k, ok := t.callOrds[ins]; ok {
			t.callOrd[name] = k
			return k
		}
	}
	t.callOrd[name]++
	return t.callOrd[name]
}

func (fc *fnCtx) callOrdinal(callee *ssa.Function, ins ssa.Instruction) string {
	name := callee.Name()
	return fmt.Sprintf("%s@%d", name, fc.siteOrd(ins, name))
}

func (fc *fnCtx) invokeSiteAsserts(st *State, x *ssa.Call, name string, recv Val, args []Val) {
	if fc.inline || fc.specMode || fc.contract == nil {
		return
	}
	k := fc.siteOrd(x, name)
	all := append([]Val{recv}, args...)
	fc.siteAsserts(st, name, fmt.Sprintf("%s@%d", name, k), all)
}

func (fc *fnCtx) callSiteAsserts(st *State, callee *ssa.Function, ordKey string, args []Val) {
	if fc.inline || fc.specMode || fc.contract == nil {
		return
	}
	fc.siteAsserts(st, callee.Name(), ordKey, args)
}

func (fc *fnCtx) siteAsserts(st *State, name, ordKey string, args []Val) {
	if fc.top.countCalls[name] {
		if st.calls == nil {
			st.calls = map[string]string{}
		}
		st.calls[name] = fc.defs.Define("calls."+name, "Int", fmt.Sprintf("(+ %s 1)", st.callCount(name)))
	}
	k := fc.top.callOrd[name]
	nth := 0
	for ci, cs := range fc.contract.Calls {
		if cs.Callee != name || (cs.K != 0 && cs.K != k) {
			continue
		}
		nth++
		fc.top.boundCalls[ci] = true
		extra := map[string]Val{}
		for i, a := range args {
			extra[fmt.Sprintf("arg%d", i)] = a
		}
		fc.top.curPos = fc.top.sitePos
		env := fc.specEnv(st, extra)
		g, err := env.goal(cs.Assert.Expr)
		if err != nil {
			fc.specError(cs.Assert, err)
			continue
		}
		oname := "call-" + ordKey + "-assert"
		if cs.Assert.Label != "" {
			oname = oname + "." + cs.Assert.Label
		} else if nth > 1 {
			oname = fmt.Sprintf("%s%d", oname, nth)
		}
		fc.oblige(st, "call-assert", oname, g, "call-site assertion: "+cs.Assert.Text, token.NoPos, true)
		fc.assume(st, g)
	}
}

// unboundClauses lists contract clauses that did not attach to anything in the code.
func (fc *fnCtx) unboundClauses() []string {
	c := fc.contract
	if c == nil {
		return nil
	}
	var out []string
	for i, cs := range c.Calls {
		if !fc.boundCalls[i] {
			out = append(out, fmt.Sprintf("%s:%d: `call %s#%d assert` binds to no call site", strings.TrimPrefix(c.File, fc.eng.repo+"/"), cs.Assert.Line, cs.Callee, cs.K))
		}
	}
	for i, as := range c.Afters {
		if !fc.boundAfters[i] {
			out = append(out, fmt.Sprintf("%s:%d: `assert after %s#%d` binds to no assignment", strings.TrimPrefix(c.File, fc.eng.repo+"/"), as.Assert.Line, as.Var, as.K))
		}
	}
	have := map[int]bool{}
	for _, li := range fc.loopInfo {
		have[li.ordinal] = true
	}
	for k, ls := range c.Loops {
		if !have[k] {
			for _, sc := range append(append([]Clause{}, ls.Steps...), ls.Exits...) {
				// a step clause is specification, not a proof hint: it must keep binding
				out = append(out, fmt.Sprintf("%s:%d: `loop %d step/exit` binds to no loop", strings.TrimPrefix(c.File, fc.eng.repo+"/"), sc.Line, k))
			}
			// proof hints only: a loop that no longer exists needs no invariant (noted, not an alarm)
			fc.noteImprecise("`loop %d` clauses of the contract bind to no loop (dropped)", k)
		}
	}
	sort.Strings(out)
	return out
}

// paramNames returns receiver+parameter names of a function.
func paramNames(fn *ssa.Function) []string {
	var out []string
	sig := fn.Signature
	if sig.Recv() != nil {
		n := sig.Recv().Name()
		if n == "" || n == "_" {
			n = "recv"
		}
		out = append(out, n)
	}
	for i := 0; i < sig.Params().Len(); i++ {
		n := sig.Params().At(i).Name()
		if n == "" || n == "_" {
			n = fmt.Sprintf("arg%d", i)
		}
		out = append(out, n)
	}
	return out
}

func resultNames(sig *types.Signature) []string {
	var out []string
	for i := 0; i < sig.Results().Len(); i++ {
		n := sig.Results().At(i).Name()
		if n == "" || n == "_" {
			n = fmt.Sprintf("result%d", i)
		}
		out = append(out, n)
	}
	return out
}

func (fc *fnCtx) contractEnv(st *State, old *State, callee *ssa.Function, args []Val, results []Val) *SpecEnv {
	env := &SpecEnv{fc: fc, st: st, old: old, vars: map[string]Val{}, bound: map[string]Val{}, pkg: callee.Package(), lets: letsOf(fc.eng.contractFor(callee))}
	if c := fc.eng.contractFor(callee); c != nil && c.ScopePkg != "" {
		for _, p := range fc.eng.prog.AllPackages() {
			if p.Pkg.Path() == c.ScopePkg {
				env.pkg = p
			}
		}
	}
	if results != nil {
		// locals of the callee named in its ensures clauses are existential witnesses here
		wit := map[string]Val{}
		env.ghost = func(name string) (Val, bool) {
			if v, ok := wit[name]; ok {
				return v, true
			}
			a := calleeLocal(callee, name)
			if a == nil {
				return Val{}, false
			}
			et := a.Type().(*types.Pointer).Elem()
			v := fc.freshVal(st, "wit."+name, et)
			wit[name] = v
			return v, true
		}
	}
	names := paramNames(callee)
	for i, n := range names {
		if i < len(args) {
			env.vars[n] = args[i]
			env.vars[fmt.Sprintf("arg%d", i)] = args[i]
		}
	}
	if results != nil {
		rn := resultNames(callee.Signature)
		for i, n := range rn {
			env.vars[n] = results[i]
			env.vars[fmt.Sprintf("result%d", i)] = results[i]
		}
		if len(results) == 1 {
			env.vars["result"] = results[0]
		}
	}
	env.oldVars = nil
	return env
}

func (fc *fnCtx) applyContract(st *State, callee *ssa.Function, c *Contract, args []Val, ordKey string, pos token.Pos) []Val {
	// 1. preconditions (+ type invariants of arguments)
	env := fc.contractEnv(st, nil, callee, args, nil)
	// recursion: the callee's measure, evaluated on the arguments, is smaller than ours
	if callee == fc.top.fn && !fc.inline && !fc.specMode {
		for i, d := range c.Decr {
			if i >= len(fc.top.recMeasures) {
				break
			}
			v, err := env.eval(d.Expr)
			if err != nil {
				fc.specError(d, err)
				continue
			}
			m0 := fc.top.recMeasures[i]
			g := fmt.Sprintf("(and (<= 0 %s) (< %s %s))", m0, env.coerce(v, types.Typ[types.Int]).T, m0)
			fc.oblige(st, "decreases", fmt.Sprintf("call-%s-decreases%d", ordKey, i+1), g, "recursion measure decreases and is bounded below: "+d.Text, pos, true)
		}
	}
	for i, r := range c.Requires {
		g, err := env.goal(r.Expr)
		if err != nil {
			fc.specError(r, err)
			continue
		}
		name := fmt.Sprintf("call-%s-pre%d", ordKey, i+1)
		if r.Label != "" {
			name = fmt.Sprintf("call-%s-pre-%s", ordKey, r.Label)
		}
		fc.oblige(st, "call-pre", name, g, "precondition of "+fc.eng.funcDisplayName(callee)+": "+r.Text, pos, true)
		fc.assume(st, g)
	}
	for i, inv := range fc.typeInvFacts(st, callee, args) {
		fc.oblige(st, "call-pre", fmt.Sprintf("call-%s-typeinv%d", ordKey, i+1), inv, "type invariant of argument holds before call", pos, true)
	}
	pre := st.clone()
	// 2. frame
	if c.Pure || (c.HasMod && len(c.Modifies) == 0) {
		// nothing changes
	} else if c.HasMod {
		// every modifies item denotes a location of the PRE-state
		preEnv := env.with(pre)
		var all []modLoc
		bad := false
		for _, m := range c.Modifies {
			locs, err := fc.modLocs(preEnv, m)
			if err != nil {
				fc.specError(Clause{Text: "modifies " + m, File: c.File, Line: c.Line}, err)
				bad = true
				continue
			}
			all = append(all, locs...)
		}
		if bad {
			fc.havocAllHeap(st, "bad modifies")
		}
		for _, l := range all {
			h := fc.heapGet(st, l.heap, l.sort)
			fresh := fc.defs.Declare("hv."+l.heap, l.elemSort)
			fc.heapSet(st, l.heap, l.sort, fmt.Sprintf("(store %s %s %s)", h, l.ref, fresh))
			if l.ty != nil {
				fc.assume(st, fc.S().RangeFact(l.ty, fresh, 1))
			}
		}
	} else {
		fc.havocAllHeap(st, "call "+callee.Name()+" (no modifies clause)")
	}
	// the callee may allocate: the watermark moves (objects it returns lie below the new one)
	if !c.Pure {
		oldA := st.alloc
		st.alloc = fc.defs.Declare("alloc.c", "Int")
		fc.assume(st, fmt.Sprintf("(>= %s %s)", st.alloc, oldA))
	}
	// 3. results + postconditions
	sig := callee.Signature
	var results []Val
	if c.Pure && sig.Results().Len() == 1 && (allScalar(args) || c.PureRefs) {
		// a pure function of scalar arguments: the same uninterpreted application as in specifications
		name := "spec." + sanitize(callee.String())
		var srts, ts []string
		for _, a := range args {
			srts = append(srts, fc.S().SortOf(a.Ty))
			ts = append(ts, a.T)
		}
		rt := sig.Results().At(0).Type()
		fc.S().UFun(name, srts, fc.S().SortOf(rt))
		term := name
		if len(ts) > 0 {
			term = app(name, ts...)
		}
		r := Val{T: fc.defs.Define(callee.Name()+".r", fc.S().SortOf(rt), term), Ty: rt}
		fc.assume(st, fc.S().RangeFact(rt, r.T, 1))
		results = []Val{r}
	} else {
		for i := 0; i < sig.Results().Len(); i++ {
			results = append(results, fc.freshVal(st, callee.Name()+".r", sig.Results().At(i).Type()))
		}
	}
	penv := fc.contractEnv(st, pre, callee, args, results)
	for _, e := range c.Ensures {
		g, err := penv.assumption(e.Expr)
		if err != nil {
			fc.specError(e, err)
			continue
		}
		fc.assume(st, g)
		fc.top.assumeScan = append(fc.top.assumeScan, "post of "+fc.eng.funcDisplayName(callee))
	}
	for _, inv := range fc.typeInvFacts(st, callee, args) {
		fc.assume(st, inv)
	}
	return results
}

// allScalar: every argument is a plain value (basic types, or structs/arrays of them): a pure
// function of such arguments is a mathematical function, modelled by one uninterpreted symbol
// shared by code call sites and specifications.
func allScalar(args []Val) bool {
	var plain func(t types.Type, depth int) bool
	plain = func(t types.Type, depth int) bool {
		if depth > 3 {
			return false
		}
		switch u := t.Underlying().(type) {
		case *types.Basic:
			return true
		case *types.Struct:
			for i := 0; i < u.NumFields(); i++ {
				if !plain(u.Field(i).Type(), depth+1) {
					return false
				}
			}
			return true
		case *types.Array:
			return plain(u.Elem(), depth+1)
		}
		return false
	}
	for _, a := range args {
		if a.Ty == nil || !plain(a.Ty, 0) {
			return false
		}
	}
	return true
}

// typeInvFacts evaluates the type invariants of pointer/value arguments.
func (fc *fnCtx) typeInvFacts(st *State, callee *ssa.Function, args []Val) []string {
	var out []string
	for _, a := range args {
		out = append(out, fc.typeInvOf(st, a)...)
	}
	return out
}

func (fc *fnCtx) typeInvOf(st *State, a Val) []string {
	if a.Ty == nil {
		return nil
	}
	t := a.Ty
	if p, ok := t.Underlying().(*types.Pointer); ok {
		t = p.Elem()
	}
	nt, ok := t.(*types.Named)
	if !ok {
		return nil
	}
	var out []string
	for _, ti := range fc.eng.typeInvs[typeKey(nt)] {
		sp := fc.eng.prog.Package(nt.Obj().Pkg())
		env := &SpecEnv{fc: fc, st: st, vars: map[string]Val{"self": a}, bound: map[string]Val{}, pkg: sp}
		g, err := env.evalBool(ti.Clause.Expr)
		if err != nil {
			fc.specError(ti.Clause, err)
			continue
		}
		if isPointer(a.Ty) {
			g = implies(not(eq(a.T, "0")), g)
		}
		out = append(out, g)
	}
	return out
}

// havocModifies havocs the location named by a modifies item, evaluated in env.
func (fc *fnCtx) havocModifies(st *State, env *SpecEnv, item string) error {
	locs, err := fc.modLocs(env, item)
	if err != nil {
		return err
	}
	for _, l := range locs {
		h := fc.heapGet(st, l.heap, l.sort)
		fresh := fc.defs.Declare("hv."+l.heap, l.elemSort)
		fc.heapSet(st, l.heap, l.sort, fmt.Sprintf("(store %s %s %s)", h, l.ref, fresh))
		if l.ty != nil {
			fc.assume(st, fc.S().RangeFact(l.ty, fresh, 1))
		}
	}
	return nil
}

type modLoc struct {
	heap, sort, elemSort, ref string
	ty                        types.Type
}

// modLocs resolves a modifies item: *p | p.f | s[..] | *p.f(ptr field)
func (fc *fnCtx) modLocs(env *SpecEnv, item string) ([]modLoc, error) {
	item = strings.TrimSpace(item)
	if strings.HasSuffix(item, "[..]") {
		ex, err := parseSpecExpr(strings.TrimSuffix(item, "[..]"))
		if err != nil {
			return nil, err
		}
		v, err := env.eval(ex)
		if err != nil {
			return nil, err
		}
		if _, isMap := v.Ty.Underlying().(*types.Map); isMap {
			// m[..]: the entries (domain, values) and the length of map m
			dn, ds, vn, vs, m := fc.mapHeaps(v.Ty)
			ks := fc.keySort(m.Key())
			return []modLoc{
				{heap: dn, sort: ds, elemSort: "(Array " + ks + " Bool)", ref: v.T},
				{heap: vn, sort: vs, elemSort: "(Array " + ks + " " + fc.S().SortOf(m.Elem()) + ")", ref: v.T},
				{heap: "ml", sort: "(Array Int Int)", elemSort: "Int", ref: v.T, ty: types.Typ[types.Int]},
			}, nil
		}
		sl, ok := v.Ty.Underlying().(*types.Slice)
		if !ok {
			return nil, fmt.Errorf("modifies %s: not a slice or a map", item)
		}
		hn, hs := fc.heapElemName(sl.Elem())
		return []modLoc{{heap: hn, sort: hs, elemSort: "(Array Int " + fc.S().SortOf(sl.Elem()) + ")", ref: "(sl.base " + v.T + ")"}}, nil
	}
	ex, err := parseSpecExpr(item)
	if err != nil {
		return nil, err
	}
	switch n := ex.(type) {
	case *ast.StarExpr:
		v, err := env.eval(n.X)
		if err != nil {
			return nil, err
		}
		pt, ok := v.Ty.Underlying().(*types.Pointer)
		if !ok {
			return nil, fmt.Errorf("modifies %s: not a pointer", item)
		}
		if ss := fc.S().structOf(pt.Elem()); ss != nil {
			var out []modLoc
			for i := range ss.fields {
				hn, hs := fc.heapFieldName(pt.Elem(), i)
				out = append(out, modLoc{heap: hn, sort: hs, elemSort: ss.fsorts[i], ref: v.T, ty: ss.ftypes[i]})
			}
			return out, nil
		}
		hn, hs := fc.heapPtrName(pt.Elem())
		es := fc.S().SortOf(pt.Elem())
		if _, isArr := pt.Elem().Underlying().(*types.Array); isArr {
			es = fc.S().SortOf(pt.Elem())
		}
		return []modLoc{{heap: hn, sort: hs, elemSort: es, ref: v.T, ty: pt.Elem()}}, nil
	case *ast.SelectorExpr:
		v, err := env.eval(n.X)
		if err != nil {
			return nil, err
		}
		pt, ok := v.Ty.Underlying().(*types.Pointer)
		if !ok {
			return nil, fmt.Errorf("modifies %s: base is not a pointer", item)
		}
		_, index := lookupFieldAnyPkg(pt.Elem(), n.Sel.Name)
		if len(index) != 1 {
			return nil, fmt.Errorf("modifies %s: field not found directly in %s", item, pt.Elem())
		}
		ss := fc.S().structOf(pt.Elem())
		hn, hs := fc.heapFieldName(pt.Elem(), index[0])
		return []modLoc{{heap: hn, sort: hs, elemSort: ss.fsorts[index[0]], ref: v.T, ty: ss.ftypes[index[0]]}}, nil
	}
	return nil, fmt.Errorf("unsupported modifies item %q", item)
}

// calleeLocal finds the unique local variable of fn with the given source name.
func calleeLocal(fn *ssa.Function, name string) *ssa.Alloc {
	var found *ssa.Alloc
	for _, b := range fn.Blocks {
		for _, ins := range b.Instrs {
			if a, ok := ins.(*ssa.Alloc); ok && a.Comment == name {
				if found != nil {
					return nil // ambiguous
				}
				found = a
			}
		}
	}
	return found
}

// inlineCode executes callee's body in place (loop-free callees only).
func (fc *fnCtx) inlineCode(st *State, callee *ssa.Function, args []Val) ([]Val, bool) {
	if callee.Blocks == nil {
		return nil, false
	}
	child := &fnCtx{eng: fc.eng, fn: callee, top: fc.top, defs: fc.defs, inline: true, specMode: fc.specMode, depth: fc.depth + 1,
		contract: fc.eng.contractFor(callee)}
	t := fc.top
	savedFail := t.inlineFailed
	t.inlineFailed = false
	nObl := len(t.obligations)
	defsMark := len(fc.defs.list)
	s0 := st.clone()
	child.execBody(s0, args)
	failed := t.inlineFailed
	t.inlineFailed = savedFail
	if failed {
		t.obligations = t.obligations[:nObl]
		_ = defsMark
		return nil, false
	}
	// merge return sites
	var edges []inEdge
	for _, r := range child.returns {
		edges = append(edges, inEdge{nil, r.st})
	}
	if len(edges) == 0 {
		// callee never returns (always panics)
		st.dead = true
		st.pc = "false"
		return nil, true
	}
	merged := fc.mergeStates(edges, "ret."+callee.Name())
	nres := callee.Signature.Results().Len()
	results := make([]Val, nres)
	for i := 0; i < nres; i++ {
		var term string
		first := true
		for j := len(child.returns) - 1; j >= 0; j-- {
			r := child.returns[j]
			if r.st.dead {
				continue
			}
			if first {
				term = r.vals[i].T
				first = false
			} else {
				term = ite(r.st.pc, r.vals[i].T, term)
			}
		}
		rt := callee.Signature.Results().At(i).Type()
		results[i] = Val{T: fc.defs.Define(callee.Name()+".res", fc.S().SortOf(rt), term), Ty: rt}
	}
	// cells of the callee are dropped; caller cells are untouched by the callee
	merged.cells = st.cells
	*st = *merged
	return results, true
}

// specByContract: a function whose contract has a postcondition of the form
// `result == E` is, in specifications, the expression E over its parameters (the
// contract is proved against the body separately). Used for functions that cannot be
// inlined (loops); when anyway is false only loop-carrying functions take this route.
func (fc *fnCtx) specByContract(st *State, fn *ssa.Function, args []Val, anyway bool) (Val, bool) {
	c := fc.eng.contracts[fn]
	if c == nil || c.Inline || fn.Signature.Results().Len() != 1 {
		return Val{}, false
	}
	if !anyway {
		hasLoop := false
		for _, b := range fn.Blocks {
			for _, s := range b.Succs {
				if s.Dominates(b) {
					hasLoop = true
				}
			}
		}
		if !hasLoop {
			return Val{}, false
		}
	}
	rn := resultNames(fn.Signature)
	for _, e := range c.Ensures {
		be, ok := e.Expr.(*ast.BinaryExpr)
		if !ok || be.Op != token.EQL {
			continue
		}
		id, ok := be.X.(*ast.Ident)
		if !ok || (id.Name != "result" && id.Name != "result0" && id.Name != rn[0]) {
			continue
		}
		env := fc.contractEnv(st, st, fn, args, nil)
		v, err := env.eval(be.Y)
		if err != nil {
			continue
		}
		rt := fn.Signature.Results().At(0).Type()
		v = env.coerce(v, rt)
		return Val{T: v.T, Ty: rt}, true
	}
	return Val{}, false
}

// specCall evaluates a function application inside a specification.
func (fc *fnCtx) specCall(st *State, fn *ssa.Function, args []Val) (Val, error) {
	full := fn.String()
	sig := fn.Signature
	if _, ok := mathFuns[full]; ok || strings.HasPrefix(full, "math.") {
		res := fc.callFunction(st.clone(), nil, fn, args, token.NoPos)
		if len(res) == 1 {
			return res[0], nil
		}
	}
	if v, ok := fc.specByContract(st, fn, args, false); ok {
		return v, nil
	}
	if c := fc.eng.contractFor(fn); c != nil && c.Pure && !c.Inline && sig.Results().Len() == 1 && (allScalar(args) || c.PureRefs) {
		// the same uninterpreted symbol as at code call sites
		name := "spec." + sanitize(full)
		var srts, ts []string
		for _, a := range args {
			srts = append(srts, fc.S().SortOf(a.Ty))
			ts = append(ts, a.T)
		}
		rt := sig.Results().At(0).Type()
		fc.S().UFun(name, srts, fc.S().SortOf(rt))
		if len(ts) == 0 {
			return Val{T: name, Ty: rt}, nil
		}
		return Val{T: app(name, ts...), Ty: rt}, nil
	}
	if fn.Blocks != nil && fc.depth < maxInlineDepth {
		child := &fnCtx{eng: fc.eng, fn: fn, top: fc.top, defs: fc.defs, inline: true, specMode: true, depth: fc.depth + 1}
		s0 := st.clone()
		if fc.top.inlineFailed {
			return Val{}, fmt.Errorf("nested inline failure")
		}
		res, ok := func() ([]Val, bool) {
			sub := &fnCtx{eng: fc.eng, fn: fc.fn, top: fc.top, defs: fc.defs, inline: true, specMode: true, depth: fc.depth}
			_ = child
			return sub.inlineCode(s0, fn, args)
		}()
		if ok {
			switch len(res) {
			case 1:
				return res[0], nil
			case 0:
				return Val{}, fmt.Errorf("%s returns nothing", fn.Name())
			default:
				return Val{Tup: res}, nil
			}
		}
	}
	if v, ok := fc.specByContract(st, fn, args, true); ok {
		return v, nil
	}
	// uninterpreted application (deterministic function of its arguments)
	if sig.Results().Len() != 1 {
		return Val{}, fmt.Errorf("cannot use %s in a specification (not inlinable, %d results)", fn.Name(), sig.Results().Len())
	}
	name := "spec." + sanitize(full)
	var srts, ts []string
	for _, a := range args {
		srts = append(srts, fc.S().SortOf(a.Ty))
		ts = append(ts, a.T)
	}
	rt := sig.Results().At(0).Type()
	fc.S().UFun(name, srts, fc.S().SortOf(rt))
	if len(ts) == 0 {
		return Val{T: name, Ty: rt}, nil
	}
	return Val{T: app(name, ts...), Ty: rt}, nil
}

// ---------------------------------------------------------------------------
// builtins

func (fc *fnCtx) execBuiltin(st *State, x *ssa.Call, b *ssa.Builtin) {
	if !fc.inline && !fc.specMode && fc.contract != nil && len(fc.contract.Calls) > 0 {
		var vals []Val
		for _, a := range x.Call.Args {
			vals = append(vals, fc.get(st, a))
		}
		k := fc.siteOrd(x, b.Name())
		fc.siteAsserts(st, b.Name(), fmt.Sprintf("%s@%d", b.Name(), k), vals)
	}
	args := x.Call.Args
	intT := types.Typ[types.Int]
	switch b.Name() {
	case "len", "cap":
		v := fc.get(st, args[0])
		switch u := v.Ty.Underlying().(type) {
		case *types.Slice:
			if b.Name() == "cap" {
				fc.setVal(x, "(sl.cap "+v.T+")")
			} else {
				fc.setVal(x, "(sl.len "+v.T+")")
			}
		case *types.Basic:
			fc.setVal(x, "(s.len "+v.T+")")
		case *types.Array:
			fc.setVal(x, fmt.Sprintf("%d", u.Len()))
		case *types.Pointer:
			if a, ok := u.Elem().Underlying().(*types.Array); ok {
				fc.setVal(x, fmt.Sprintf("%d", a.Len()))
			} else {
				fc.vals[x] = fc.freshVal(st, x.Name(), intT)
			}
		case *types.Map:
			fc.setVal(x, fc.mapLen(st, v))
		default:
			r := fc.freshVal(st, x.Name(), intT)
			fc.assume(st, "(<= 0 "+r.T+")")
			fc.vals[x] = r
		}
	case "append":
		fc.execAppend(st, x)
	case "copy":
		dst := fc.get(st, args[0])
		src := fc.get(st, args[1])
		sl := dst.Ty.Underlying().(*types.Slice)
		hn, hs := fc.heapElemName(sl.Elem())
		h := fc.heapGet(st, hn, hs)
		var srcLen string
		srcAt := func(i string) string { return "" }
		if isString(src.Ty) {
			srcLen = "(s.len " + src.T + ")"
			srcAt = func(i string) string { return fmt.Sprintf("(s.at %s %s)", src.T, i) }
		} else {
			srcLen = "(sl.len " + src.T + ")"
			srcAt = func(i string) string {
				return fmt.Sprintf("(select (select %s (sl.base %s)) (+ (sl.off %s) %s))", h, src.T, src.T, i)
			}
		}
		if dst.T == arrWindow && dst.Addr != nil {
			lo, hi := dst.Tup[0].T, dst.Tup[1].T
			arrT := dst.Addr.typ().Underlying().(*types.Array)
			win := fmt.Sprintf("(- %s %s)", hi, lo)
			n := fc.defs.Define("copy.n", "Int", fmt.Sprintf("(ite (<= %s %s) %s %s)", win, srcLen, win, srcLen))
			oldArr := fc.readLVal(st, dst.Addr)
			var nv string
			if arrT.Len() <= 32 {
				nv = oldArr
				for i := int64(0); i < arrT.Len(); i++ {
					is := fmt.Sprintf("%d", i)
					nv = fmt.Sprintf("(store %s %s (ite (and (<= %s %s) (< %s (+ %s %s))) %s (select %s %s)))", nv, is, lo, is, is, lo, n,
						srcAt(fmt.Sprintf("(- %s %s)", is, lo)), oldArr, is)
				}
				nv = fc.defs.Define("copy.arr", fc.S().SortOf(arrT), nv)
			} else {
				nv = fc.defs.Declare("copy.arr", fc.S().SortOf(arrT))
				fc.assume(st, fmt.Sprintf("(forall ((i Int)) (! (= (select %s i) (ite (and (<= %s i) (< i (+ %s %s))) %s (select %s i))) :pattern ((select %s i))))",
					nv, lo, lo, n, srcAt(fmt.Sprintf("(- i %s)", lo)), oldArr, nv))
			}
			fc.writeLVal(st, dst.Addr, nv)
			fc.setVal(x, n)
			return
		}
		n := fc.defs.Define("copy.n", "Int", fmt.Sprintf("(ite (<= (sl.len %s) %s) (sl.len %s) %s)", dst.T, srcLen, dst.T, srcLen))
		row := fc.defs.Declare("copy.row", "(Array Int "+fc.S().SortOf(sl.Elem())+")")
		oldrow := fmt.Sprintf("(select %s (sl.base %s))", h, dst.T)
		fc.assume(st, fmt.Sprintf("(forall ((i Int)) (= (select %s i) (ite (and (<= (sl.off %s) i) (< i (+ (sl.off %s) %s))) %s (select %s i))))",
			row, dst.T, dst.T, n, srcAt(fmt.Sprintf("(- i (sl.off %s))", dst.T)), oldrow))
		fc.heapSet(st, hn, hs, fmt.Sprintf("(store %s (sl.base %s) %s)", h, dst.T, row))
		fc.setVal(x, n)
	case "delete":
		fc.execMapDelete(st, x)
	case "min", "max":
		a := fc.get(st, args[0])
		term := a.T
		for _, o := range args[1:] {
			bv := fc.get(st, o)
			op := "<="
			if b.Name() == "max" {
				op = ">="
			}
			term = fmt.Sprintf("(ite (%s %s %s) %s %s)", op, term, bv.T, term, bv.T)
		}
		fc.setVal(x, term)
	case "ssa:wrapnilchk":
		v := fc.get(st, args[0])
		fc.oblige(st, "nil", "", not(eq(v.T, "0")), "nil receiver in method value", x.Pos(), false)
		fc.vals[x] = v
	case "ssa:deferstack":
		fc.vals[x] = Val{T: "0", Ty: x.Type()}
	case "print", "println":
		fc.vals[x] = Val{Ty: x.Type()}
	case "recover":
		fc.vals[x] = Val{T: "(mkiface 0 0)", Ty: x.Type()}
	case "clear":
		fc.noteImprecise("builtin clear")
		fc.havocAllHeap(st, "clear")
		fc.vals[x] = Val{Ty: x.Type()}
	default:
		fc.noteImprecise("builtin %s", b.Name())
		if x.Type() != nil {
			if tup, ok := x.Type().(*types.Tuple); ok && tup.Len() == 0 {
				fc.vals[x] = Val{Ty: x.Type()}
				return
			}
			fc.vals[x] = fc.freshVal(st, x.Name(), x.Type())
		}
	}
}

// varargsLen returns k if v is `slice (new [k]T)[:]`.
func varargsLen(v ssa.Value) (int64, *ssa.Alloc, bool) {
	s, ok := v.(*ssa.Slice)
	if !ok || s.Low != nil || s.High != nil {
		return 0, nil, false
	}
	a, ok := s.X.(*ssa.Alloc)
	if !ok {
		return 0, nil, false
	}
	arr, ok := a.Type().(*types.Pointer).Elem().Underlying().(*types.Array)
	if !ok {
		return 0, nil, false
	}
	return arr.Len(), a, true
}

func (fc *fnCtx) execAppend(st *State, x *ssa.Call) {
	args := x.Call.Args
	s := fc.get(st, args[0])
	t := fc.get(st, args[1])
	sl := s.Ty.Underlying().(*types.Slice)
	es := fc.S().SortOf(sl.Elem())
	hn, hs := fc.heapElemName(sl.Elem())
	h := fc.heapGet(st, hn, hs)
	var n string
	tAt := func(i string) string { return "" }
	if isString(t.Ty) {
		n = "(s.len " + t.T + ")"
		tAt = func(i string) string { return fmt.Sprintf("(s.at %s %s)", t.T, i) }
	} else {
		n = "(sl.len " + t.T + ")"
		tAt = func(i string) string {
			return fmt.Sprintf("(select (select %s (sl.base %s)) (+ (sl.off %s) %s))", h, t.T, t.T, i)
		}
	}
	k, _, isVar := varargsLen(args[1])
	if isVar {
		n = fmt.Sprintf("%d", k)
	}
	if c, ok := args[1].(*ssa.Const); ok && c.Value == nil {
		// append(s, nil...) = s
		fc.vals[x] = s
		return
	}
	oldLen := fc.defs.Define("app.len", "Int", "(sl.len "+s.T+")")
	newLen := fc.defs.Define("app.newlen", "Int", fmt.Sprintf("(+ %s %s)", oldLen, n))
	fits := fc.defs.Define("app.fits", "Bool", fmt.Sprintf("(and (<= %s (sl.cap %s)) (not (= (sl.base %s) 0)))", newLen, s.T, s.T))
	fresh := fc.allocRef(st, "app")
	newCap := fc.defs.Declare("app.cap", "Int")
	fc.assume(st, fmt.Sprintf("(>= %s %s)", newCap, newLen))
	oldRow := fc.defs.Define("app.oldrow", "(Array Int "+es+")", fmt.Sprintf("(select %s (sl.base %s))", h, s.T))
	// copied prefix for the reallocation case
	copyRow := fc.defs.Declare("app.copyrow", "(Array Int "+es+")")
	fc.assume(st, fmt.Sprintf("(forall ((i Int)) (! (=> (and (<= 0 i) (< i %s)) (= (select %s i) (select %s (+ (sl.off %s) i)))) :pattern ((select %s i))))", oldLen, copyRow, oldRow, s.T, copyRow))
	resBase := fc.defs.Define("app.base", "Int", ite(fits, "(sl.base "+s.T+")", fresh))
	resOff := fc.defs.Define("app.off", "Int", ite(fits, "(sl.off "+s.T+")", "0"))
	resCap := fc.defs.Define("app.rescap", "Int", ite(fits, "(sl.cap "+s.T+")", newCap))
	startRow := ite(fits, oldRow, copyRow)
	var newRow string
	if isVar && k <= 8 {
		newRow = startRow
		for i := int64(0); i < k; i++ {
			newRow = fmt.Sprintf("(store %s (+ %s %s %d) %s)", newRow, resOff, oldLen, i, tAt(fmt.Sprintf("%d", i)))
		}
	} else {
		nr := fc.defs.Declare("app.row", "(Array Int "+es+")")
		fc.assume(st, fmt.Sprintf("(forall ((i Int)) (! (= (select %s i) (ite (and (<= (+ %s %s) i) (< i (+ %s %s))) %s (select %s i))) :pattern ((select %s i))))",
			nr, resOff, oldLen, resOff, newLen, tAt(fmt.Sprintf("(- i (+ %s %s))", resOff, oldLen)), startRow, nr))
		newRow = nr
	}
	fc.heapSet(st, hn, hs, fmt.Sprintf("(store %s %s %s)", h, resBase, newRow))
	res := fc.setVal(x, fmt.Sprintf("(mkslice %s %s %s %s)", resBase, resOff, newLen, resCap))
	// derived facts in terms of the element function (select (select H base) (sl.ix s i)), so that
	// quantified invariants over the old slice are found by E-matching on the new one
	h2 := fc.heapGet(st, hn, hs)
	elemNew := func(i string) string {
		return fmt.Sprintf("(select (select %s %s) (sl.ix %s %s))", h2, resBase, res.T, i)
	}
	// two alternative triggers: a term about the new slice, or about the old one (an existential
	// witness known for the old slice must be found for the new one)
	oldPat := ""
	if isAtom(s.T) {
		oldPat = fmt.Sprintf(" :pattern ((sl.ix %s j))", s.T)
	}
	fc.assume(st, fmt.Sprintf("(forall ((j Int)) (! (=> (and (<= 0 j) (< j %s)) (= %s (select (select %s (sl.base %s)) (sl.ix %s j)))) :pattern ((sl.ix %s j))%s))",
		oldLen, elemNew("j"), h, s.T, s.T, res.T, oldPat))
	if isVar && k <= 8 {
		for i := int64(0); i < k; i++ {
			fc.assume(st, eq(elemNew(fmt.Sprintf("(+ %s %d)", oldLen, i)), tAt(fmt.Sprintf("%d", i))))
		}
	} else if !isString(t.Ty) {
		fc.assume(st, fmt.Sprintf("(forall ((j Int)) (! (=> (and (<= %s j) (< j %s)) (= %s (select (select %s (sl.base %s)) (sl.ix %s (- j %s))))) :pattern ((sl.ix %s j))))",
			oldLen, newLen, elemNew("j"), h, t.T, t.T, oldLen, res.T))
	}
}

// ---------------------------------------------------------------------------
// interface method calls

func (fc *fnCtx) execInvoke(st *State, x *ssa.Call, recv Val, args []Val) {
	m := x.Call.Method
	fc.invokeSiteAsserts(st, x, m.Name(), recv, args)
	// assumed contract on the interface method, keyed "(pkg.Iface).Method"
	key := "(" + typeKey(x.Call.Value.Type()) + ")." + m.Name()
	if c := fc.eng.ifaceContract(x.Call.Value.Type(), m.Name()); c != nil {
		fc.top.externsUsed[key] = true
		fc.oblige(st, "nil", "", not(eq("(if.tag "+recv.T+")", "0")), "method call on nil interface", x.Pos(), false)
		fc.assume(st, not(eq("(if.tag "+recv.T+")", "0")))
		res := fc.applyIfaceContract(st, x, c, recv, args)
		fc.bindResults(st, x, res)
		return
	}
	fc.oblige(st, "nil", "", not(eq("(if.tag "+recv.T+")", "0")), "method call on nil interface", x.Pos(), false)
	fc.unknownCall(st, x, "interface method "+key)
}

// ifaceApp is the uninterpreted function standing for a pure interface method.
func (fc *fnCtx) ifaceApp(recv Val, method string, args []Val, rt types.Type) Val {
	name := "ifn." + sanitize(typeKey(recv.Ty)+"."+method)
	srts := []string{"Iface"}
	ts := []string{recv.T}
	for _, a := range args {
		srts = append(srts, fc.S().SortOf(a.Ty))
		ts = append(ts, a.T)
	}
	fc.S().UFun(name, srts, fc.S().SortOf(rt))
	return Val{T: app(name, ts...), Ty: rt}
}

// ifaceContract finds the assumed contract of an interface method; a key ending in
// `*` matches by prefix, e.g. (properties.ElementStyle).Get*.
func (eng *Engine) ifaceContract(t types.Type, method string) *Contract {
	key := "(" + typeKey(t) + ")." + method
	if c := eng.ifaceContracts[key]; c != nil {
		return c
	}
	for k, c := range eng.ifaceContracts {
		if strings.HasSuffix(k, "*") && strings.HasPrefix(key, strings.TrimSuffix(k, "*")) {
			return c
		}
	}
	// (pkg.*).Method: any interface type of that package
	tk := typeKey(t)
	if i := strings.LastIndex(tk, "."); i > 0 {
		if c := eng.ifaceContracts["("+tk[:i]+".*)."+method]; c != nil {
			return c
		}
	}
	return nil
}

func (fc *fnCtx) applyIfaceContract(st *State, x *ssa.Call, c *Contract, recv Val, args []Val) []Val {
	sig := x.Call.Method.Type().(*types.Signature)
	env := &SpecEnv{fc: fc, st: st, vars: map[string]Val{"self": recv}, bound: map[string]Val{}, pkg: fc.fn.Package(), lets: letsOf(c)}
	for i, a := range args {
		n := sig.Params().At(i).Name()
		if n != "" {
			env.vars[n] = a
		}
		env.vars[fmt.Sprintf("arg%d", i)] = a
	}
	if mp := x.Call.Method.Pkg(); mp != nil {
		if sp := fc.eng.prog.Package(mp); sp != nil {
			env.pkg = sp
		}
	}
	pre := st.clone()
	if !(c.Pure || (c.HasMod && len(c.Modifies) == 0)) {
		fc.havocAllHeap(st, "interface call")
	}
	var results []Val
	if c.Pure && sig.Results().Len() == 1 {
		// deterministic function of the receiver, the arguments (and the heap, ignored: assumed immutable facts)
		rt := sig.Results().At(0).Type()
		app1 := fc.ifaceApp(recv, x.Call.Method.Name(), args, rt)
		r := Val{T: fc.defs.Define(x.Name(), fc.S().SortOf(rt), app1.T), Ty: rt}
		fc.assume(st, fc.S().RangeFact(rt, r.T, 1))
		if isPointer(rt) {
			// a pointer obtained from an object that existed at entry points to an object that existed at entry
			fc.assume(st, fmt.Sprintf("(and (< %s %s) (=> (< (if.val %s) %s) (< %s %s)))", r.T, st.alloc, recv.T, fc.top.alloc0, r.T, fc.top.alloc0))
		}
		if isSliceT(rt) {
			fc.assume(st, fmt.Sprintf("(and (< (sl.base %s) %s) (=> (< (if.val %s) %s) (< (sl.base %s) %s)))", r.T, st.alloc, recv.T, fc.top.alloc0, r.T, fc.top.alloc0))
		}
		results = []Val{r}
	} else if c.Pure && sig.Results().Len() > 1 {
		// several results: one uninterpreted function per result (Method#0, Method#1, ...)
		for i := 0; i < sig.Results().Len(); i++ {
			rt := sig.Results().At(i).Type()
			appi := fc.ifaceApp(recv, fmt.Sprintf("%s.r%d", x.Call.Method.Name(), i), args, rt)
			r := Val{T: fc.defs.Define(fmt.Sprintf("%s.r%d", x.Name(), i), fc.S().SortOf(rt), appi.T), Ty: rt}
			fc.assume(st, fc.S().RangeFact(rt, r.T, 1))
			results = append(results, r)
		}
	} else {
		for i := 0; i < sig.Results().Len(); i++ {
			results = append(results, fc.freshVal(st, x.Call.Method.Name()+".r", sig.Results().At(i).Type()))
		}
	}
	env.st = st
	env.old = pre
	for i, r := range results {
		env.vars[fmt.Sprintf("result%d", i)] = r
	}
	if len(results) == 1 {
		env.vars["result"] = results[0]
	}
	for _, e := range c.Ensures {
		g, err := env.assumption(e.Expr)
		if err != nil {
			fc.specError(e, err)
			continue
		}
		fc.assume(st, g)
	}
	return results
}

// ---------------------------------------------------------------------------
// maps (heap objects: dom and val arrays keyed by a canonical key term)

func (fc *fnCtx) mapHeaps(t types.Type) (dom, doms, val, vals string, m *types.Map) {
	m = t.Underlying().(*types.Map)
	ks := fc.keySort(m.Key())
	name := mangle(m.Key()) + "." + mangle(m.Elem())
	return "md." + name, "(Array Int (Array " + ks + " Bool))", "mv." + name, "(Array Int (Array " + ks + " " + fc.S().SortOf(m.Elem()) + "))", m
}

func (fc *fnCtx) keySort(k types.Type) string {
	if isString(k) {
		return "Int"
	}
	if a, ok := k.Underlying().(*types.Array); ok && isString(a.Elem()) && a.Len() <= 16 {
		return "(Array Int Int)"
	}
	return fc.S().SortOf(k)
}

// keyTerm is the canonical form of a map key: Go compares keys by content, the Str sort by
// representation, so strings go through strkey (equal exactly on equal contents); arrays of
// strings are canonicalised element by element.
func (fc *fnCtx) keyTerm(k Val) string {
	strkey := func() {
		fc.S().UFun("strkey", []string{"Str"}, "Int")
		fc.S().Axiom("strkey", "(assert (forall ((a Str) (b Str)) (! (= (= (strkey a) (strkey b)) (streq a b)) :pattern ((strkey a) (strkey b)))))")
	}
	if k.Ty != nil && isString(k.Ty) {
		strkey()
		return "(strkey " + k.T + ")"
	}
	if k.Ty != nil {
		if a, ok := k.Ty.Underlying().(*types.Array); ok && isString(a.Elem()) && a.Len() <= 16 {
			strkey()
			t := "((as const (Array Int Int)) 0)"
			for i := int64(0); i < a.Len(); i++ {
				t = fmt.Sprintf("(store %s %d (strkey (select %s %d)))", t, i, k.T, i)
			}
			return t
		} else if typeHasString(k.Ty, 0) {
			fc.noteImprecise("map key of type %s contains strings compared by representation", k.Ty)
		}
	}
	return k.T
}

func typeHasString(t types.Type, depth int) bool {
	if depth > 6 {
		return false
	}
	switch u := t.Underlying().(type) {
	case *types.Basic:
		return u.Info()&types.IsString != 0
	case *types.Array:
		return typeHasString(u.Elem(), depth+1)
	case *types.Struct:
		for i := 0; i < u.NumFields(); i++ {
			if typeHasString(u.Field(i).Type(), depth+1) {
				return true
			}
		}
	}
	return false
}

func (fc *fnCtx) initMap(st *State, t types.Type, r string) {
	dn, ds, _, _, m := fc.mapHeaps(t)
	h := fc.heapGet(st, dn, ds)
	fc.heapSet(st, dn, ds, fmt.Sprintf("(store %s %s ((as const (Array %s Bool)) false))", h, r, fc.keySort(m.Key())))
	ln, lsrt := "ml", "(Array Int Int)"
	lh := fc.heapGet(st, ln, lsrt)
	fc.heapSet(st, ln, lsrt, fmt.Sprintf("(store %s %s 0)", lh, r))
}

func (fc *fnCtx) mapLen(st *State, m Val) string {
	return fmt.Sprintf("(select %s %s)", fc.heapGet(st, "ml", "(Array Int Int)"), m.T)
}

func (fc *fnCtx) mapLookup(st *State, m Val, k Val) (Val, string) {
	dn, ds, vn, vs, mt := fc.mapHeaps(m.Ty)
	if k.Ty == nil && k.Const != nil {
		k = fc.constVal(k.Const, mt.Key())
	}
	kt := fc.keyTerm(Val{T: k.T, Ty: mt.Key()})
	dom := fmt.Sprintf("(select (select %s %s) %s)", fc.heapGet(st, dn, ds), m.T, kt)
	inDom := and(not(eq(m.T, "0")), dom)
	val := fmt.Sprintf("(select (select %s %s) %s)", fc.heapGet(st, vn, vs), m.T, kt)
	return Val{T: ite(inDom, val, fc.S().Zero(mt.Elem())), Ty: mt.Elem()}, inDom
}

func (fc *fnCtx) execLookup(st *State, x *ssa.Lookup) {
	base := fc.get(st, x.X)
	idx := fc.get(st, x.Index)
	if isString(base.Ty) {
		fc.oblige(st, "index", "", fmt.Sprintf("(and (<= 0 %s) (< %s (s.len %s)))", idx.T, idx.T, base.T), "string index in range", x.Pos(), false)
		fc.setVal(x, fmt.Sprintf("(s.at %s %s)", base.T, idx.T))
		return
	}
	v, ok := fc.mapLookup(st, base, idx)
	if tbl, gname := fc.eng.tableOf(x.X); tbl != nil {
		// constant table built by the package's init from a literal: case analysis over its keys
		mt := x.X.Type().Underlying().(*types.Map)
		val := fc.S().Zero(mt.Elem())
		var hit []string
		for i := len(tbl.entries) - 1; i >= 0; i-- {
			e := tbl.entries[i]
			var c string
			if isString(mt.Key()) {
				c = fc.strEqLit(idx.T, constant.StringVal(e.key.Value))
			} else {
				c = eq(idx.T, fc.constVal(e.key.Value, mt.Key()).T)
			}
			hit = append(hit, c)
			val = ite(c, fc.constVal(e.val.Value, mt.Elem()).T, val)
		}
		v, ok = Val{T: val, Ty: mt.Elem()}, or(hit...)
		fc.top.tablesUsed[gname] = true
	}
	if x.CommaOk {
		vn := fc.defs.Define(x.Name()+".v", fc.S().SortOf(v.Ty), v.T)
		okn := fc.defs.Define(x.Name()+".ok", "Bool", ok)
		fc.vals[x] = Val{Ty: x.Type(), Tup: []Val{{T: vn, Ty: v.Ty}, {T: okn, Ty: types.Typ[types.Bool]}}}
		fc.assume(st, fc.S().RangeFact(v.Ty, vn, 1))
		return
	}
	r := fc.setVal(x, v.T)
	fc.assume(st, fc.S().RangeFact(v.Ty, r.T, 1))
}

func (fc *fnCtx) execMapUpdate(st *State, x *ssa.MapUpdate) {
	m := fc.get(st, x.Map)
	k := fc.get(st, x.Key)
	v := fc.get(st, x.Value)
	if !fc.inline && !fc.specMode && fc.contract != nil && len(fc.contract.Calls) > 0 {
		// `call mapupdate#k assert ...`: ghost assertion at the k-th map store (arg0 map, arg1 key, arg2 value)
		ord := fc.siteOrd(x, "mapupdate")
		fc.siteAsserts(st, "mapupdate", fmt.Sprintf("mapupdate@%d", ord), []Val{m, k, v})
	}
	fc.oblige(st, "nilmap", "", not(eq(m.T, "0")), "assignment to entry in nil map", x.Pos(), false)
	fc.assume(st, not(eq(m.T, "0"))) // execution continues only if the store did not panic
	dn, ds, vn, vs, mt := fc.mapHeaps(m.Ty)
	kt := fc.keyTerm(Val{T: k.T, Ty: mt.Key()})
	dh := fc.heapGet(st, dn, ds)
	vh := fc.heapGet(st, vn, vs)
	was := fmt.Sprintf("(select (select %s %s) %s)", dh, m.T, kt)
	lh := fc.heapGet(st, "ml", "(Array Int Int)")
	fc.heapSet(st, "ml", "(Array Int Int)", fmt.Sprintf("(store %s %s (ite %s (select %s %s) (+ (select %s %s) 1)))", lh, m.T, was, lh, m.T, lh, m.T))
	fc.heapSet(st, dn, ds, fmt.Sprintf("(store %s %s (store (select %s %s) %s true))", dh, m.T, dh, m.T, kt))
	fc.heapSet(st, vn, vs, fmt.Sprintf("(store %s %s (store (select %s %s) %s %s))", vh, m.T, vh, m.T, kt, fc.materialize(st, v)))
}

func (fc *fnCtx) execMapDelete(st *State, x *ssa.Call) {
	m := fc.get(st, x.Call.Args[0])
	k := fc.get(st, x.Call.Args[1])
	dn, ds, _, _, mt := fc.mapHeaps(m.Ty)
	kt := fc.keyTerm(Val{T: k.T, Ty: mt.Key()})
	dh := fc.heapGet(st, dn, ds)
	was := fmt.Sprintf("(select (select %s %s) %s)", dh, m.T, kt)
	lh := fc.heapGet(st, "ml", "(Array Int Int)")
	fc.heapSet(st, "ml", "(Array Int Int)", fmt.Sprintf("(store %s %s (ite %s (- (select %s %s) 1) (select %s %s)))", lh, m.T, was, lh, m.T, lh, m.T))
	fc.heapSet(st, dn, ds, fmt.Sprintf("(store %s %s (store (select %s %s) %s false))", dh, m.T, dh, m.T, kt))
	fc.vals[x] = Val{Ty: x.Type()}
}

// execNext: iteration step over a map or string (values are unconstrained except
// for membership facts; loop invariants must carry anything else).
func (fc *fnCtx) execNext(st *State, x *ssa.Next) {
	it := fc.get(st, x.Iter)
	boolT := types.Typ[types.Bool]
	ok := fc.defs.Declare(x.Name()+".ok", "Bool")
	tup := x.Type().(*types.Tuple)
	kT, vT := tup.At(1).Type(), tup.At(2).Type()
	if x.IsString {
		k := fc.freshVal(st, x.Name()+".i", types.Typ[types.Int])
		v := fc.freshVal(st, x.Name()+".r", types.Typ[types.Int32])
		if len(it.Tup) == 1 {
			str := it.Tup[0].T
			b0 := fc.strAt(str, k.T)
			// UTF-8 decoding: an ASCII byte is its own code point, anything else decodes to >= 0x80
			fc.assume(st, implies(ok, fmt.Sprintf("(and (<= 0 %s) (< %s (s.len %s)) (>= %s 0) (ite (< %s 128) (= %s %s) (>= %s 128)))", k.T, k.T, str, v.T, b0, v.T, b0, v.T)))
		}
		fc.vals[x] = Val{Ty: x.Type(), Tup: []Val{{T: ok, Ty: boolT}, k, v}}
		return
	}
	var k, v Val
	if b, isB := kT.(*types.Basic); isB && b.Kind() == types.Invalid {
		k = Val{T: "0", Ty: kT}
	} else {
		k = fc.freshVal(st, x.Name()+".k", kT)
	}
	if b, isB := vT.(*types.Basic); isB && b.Kind() == types.Invalid {
		v = Val{T: "0", Ty: vT}
	} else {
		v = fc.freshVal(st, x.Name()+".v", vT)
	}
	if len(it.Tup) == 1 && it.Tup[0].Ty != nil {
		if _, isMap := it.Tup[0].Ty.Underlying().(*types.Map); isMap && k.T != "0" {
			lv, inDom := fc.mapLookup(st, it.Tup[0], k)
			fact := inDom
			if v.T != "0" {
				fact = and(inDom, eq(v.T, lv.T))
			}
			fc.assume(st, implies(ok, fact))
		}
	}
	fc.vals[x] = Val{Ty: x.Type(), Tup: []Val{{T: ok, Ty: boolT}, k, v}}
}
