#!/bin/bash
# tools/seedscratch.sh <PROP> <seed-or-mutant-diff>   runs the property's quick check against a stored change
# applied to a scratch copy of /repo's working tree (nothing is written to /repo).
cd "$(dirname "$0")/.."
P="$1"; D="$2"; [ -f "$D" ] || D="seeded/$2/patch.diff"
SCR=$(mktemp -d /tmp/seedscr-XXXX); trap 'rm -rf "$SCR"' EXIT
mkdir -p "$SCR/repo"; (cd /repo && git ls-files -z | xargs -0 cp --parents -t "$SCR/repo")
(cd "$SCR/repo" && git init -q . && git apply "/verif/$D") || { echo "patch does not apply"; exit 1; }
export GOFLAGS=-mod=mod GOPROXY=off GOSUMDB=off GOTOOLCHAIN=local
bin/gowp -repo "$SCR/repo" -props "$P" -tier quick -lock off -noevidence 2>&1 | grep -v "^  ok\|KNOWN" | tail -${3:-4} | cut -c1-260
