#!/usr/bin/env python3
"""Regenerates /verif/MANIFEST.json from the table below."""
import json, subprocess, os

CLAIMED = {
 "C17": dict(
   text="Every function of package matrix is under contract; its postconditions (constructors equal the CSS Transforms / doc-comment matrices, mult is composition of the two maps, Invert is a two-sided inverse when det != 0 and leaves T unchanged otherwise, in-place Translate/Scale/Rotate/Skew equal right multiplication) and the group-law lemmas are proved for all real inputs by SMT (QF_NRA). The two producers are under contract as well: document.getMatrix (each CSS transform function right-multiplies by the matrix CSS Transforms defines, percentages of translate resolved against the border box width / height, transform-origin conjugation), svg transform.applyTo / aggregateTransforms / Value.Resolve, and svg.parseTransform (the kind and argument slots stored for each SVG transform function: skewX(a) = skew(a,0), skewY(a) = skew(0,a), scale(s) = scale(s,s), translate(x) = translate(x,0), rotate with and without centre, matrix). Floats are treated as reals.",
   note="float-as-real; math.Tan/Sin/Cos uninterpreted; VC generator and go/ssa trusted; CSS/SVG call sites (getMatrix, parseTransform) see evidence for what is under contract",
   ref="DESIGN.md §4 C17"),
}

CLAIMED["C19"] = dict(
   text="The counter-style symbol algorithms (cyclic, fixed, symbolic, alphabetic, numeric, additive), reverse, Validate and fallback are under contract: no panic for any integer and any symbol list (index, division, strings.Repeat count), loops terminate (decreases), cyclic picks the residue of value-1 modulo the number of symbols (lemma), fixed/symbolic results as CSS Counter Styles 3 defines, reverse reverses, Validate enforces the symbol-count minima. renderValue: range `auto` bounds per system, the systems that use a negative sign, the default sign, dispatch of each system to its algorithm, fallback to the style's own fallback (not decimal) when the range or the fixed/additive algorithm rejects the value, pad length. Termination over fallback/extends graphs is checked by an exhaustive BOUNDED enumeration (4096 graphs on three styles), labelled bounded. The counter scoping in boxes.UpdateCounters is NOT under contract.",
   note="machine-int-as-math; strings.Repeat/Join, fmt.Errorf assumed (extern); strings modelled as byte arrays with an uninterpreted equality; renderValue/resolveCounter/UpdateCounters unverified",
   ref="DESIGN.md §4 C19")

CLAIMED["C10"] = dict(
   text="The CSS 2.1 arithmetic kernels of block layout are under contract and proved for all real inputs: blockLevelWidth_ (10.3.3: the seven-term equation holds whenever width or a margin was auto and the box is not over-constrained, auto margins centre, a given width is kept, auto width zeroes auto margins, over-constraint keeps the given values and the ltr position; frame: only Width/MarginLeft/MarginRight/PositionX of the box change), collapseMargin (largest positive + most negative, quantified over the list), ResolvePercentage (px / percentage / auto), MaybeFloat.V. The threading of adjoining margins through blockContainerLayout and min/max re-resolution are NOT under contract.",
   note="float-as-real; interface dispatch of MaybeFloat.V and Box.Box() by assumed (listed) interface contracts; style accessors assumed pure; only the listed kernels are verified, not the layout recursion around them",
   ref="DESIGN.md §4 C10")
CLAIMED["C11"] = dict(
   text="Only the alignment kernel is decided: textAlign is under contract (offset 0 when the line does not fit or for start/justify, (available-width)/2 for center, available-width for end, left/right mapped through direction, text-align-last on the last line) and proved for all inputs. inlineBoxVerticality keeps running extrema (every assignment raises maxY / lowers minY: a line box is as tall as its contents, nested inline contents cannot shrink it). lineBoxVerticality measures every top/bottom-aligned sub-tree it collects, including those found while measuring another one (loop exit obligation). Greedy line fitting in the text engines is out of reach and NOT claimed.",
   note="float-as-real; style accessors assumed pure functions of the style; justifyLine/logger calls havoc the heap (the function claims no frame); splitFirstLine and the shaping engines unverified",
   ref="DESIGN.md §4 C11")
CLAIMED["C12"] = dict(
   text="Page geometry and break classification kernels are under contract and proved: pageWidthOrHeight (css-page-3 page-box equation margin+padding/border+inner+margin == containing block whenever something was auto, equal auto margins, given values kept) as call-site assertions at the write-back, overflowsPage (exact formula, monotone in y), forcePageBreak / avoidPageBreak value sets. remakePage page-type selection, pageTypeMatch (:nth(an+b) sound and complete) and blockLevelPageName (a break is forced when the name the previous sibling ENDS on differs from the name the next one STARTS on) are under contract too. blockLevelPageBreak folds the break-after / break-before values met at a boundary keeping the strongest at every step (side value > page/column > avoid* > auto; `loop step` obligation). Orphans/widows and the 'never below the page' part are NOT under contract.",
   note="float-as-real; orientedBoxITF.baseBox assumed pure/non-nil; restoreBoxAttributes unverified (interface call, havoc)",
   ref="DESIGN.md §4 C12")

CLAIMED["C06"] = dict(
   text="css/parser tokenizer.go and parser.go are under contract (55 functions, ~1400 obligations): every index/slice/nil/type-assertion is safe for all byte inputs, every loop and the recursion of consumeValueList terminate (measure len-pos: each step consumes >= 1 byte, which needs the proved NUL-free invariant established by Tokenize), the ident-start / name-start predicates equal the CSS Syntax 3 definitions, and error recovery is exact: a nested value list ends at EOF or just after its own closing delimiter, consumeRemnants / declarations / at-rules / qualified rules stop just after the FIRST top-level ';' or {} block (quantified over the skipped tokens). parseDeclaration recognises `!important` as CSS Syntax 3 §5.4.6 says (white space and comments do not leave the state). The two regular expressions the tokenizer relies on (number, hex escape) are ASSUMED from their source text; a BOUNDED enumeration (7.7 M byte strings up to length 8, labelled bounded, not counted as proved) compares them with hand-written CSS Syntax matchers. Token VALUES (escape decoding, numbers, string building) and colors.go are NOT decided.",
   note="assumed extern contracts: utf8.DecodeRune, bytes.HasPrefix/Index/LastIndexByte/Count/ReplaceAll, strings.ContainsRune, strings.Builder, strconv, the two anchored regexps of the package; Token.Kind/Pos assumed pure; machine-int-as-math",
   ref="DESIGN.md §4 C06")

CLAIMED["C20"] = dict(
   text="The serializer side of the round trip is under contract: for every code point the text written by serializeName / serializeStringValue / serializeURL is one of the forms the CSS Syntax tokenizer decodes back to that code point in that context (raw only where allowed, backslash escape only for non-hex non-newline ASCII, or a hexadecimal escape), proved by case analysis over a symbolic rune; the exponent-disambiguating escape of a dimension unit decodes to the unit's own first letter; the closing quote is written only for unflagged strings; serializers do not panic. The separator table is checked against the CSS Syntax 3 §9 table by an EXHAUSTIVE bounded enumeration (35x35 type-name pairs, labelled bounded, not counted as proved). tokenize(serialize(x)) == x end-to-end is NOT decided (token values are out of reach, see C06).",
   note="string(rune) and strconv.FormatInt are uninterpreted (UTF-8 facts for ASCII only); values assumed NUL-free (the tokenizer replaces NUL); io.StringWriter.WriteString havocs the heap; badPairs checked by bounded enumeration only",
   ref="DESIGN.md §4 C20")

CLAIMED["C03"] = dict(
   text="The ordering machinery of the cascade is under contract and proved: declarationPrecedence is the CSS table ua < user < author < author! < user!; Specificity.Less/Add are lexicographic order and component sum; weight.Less is the non-strict lexicographic order on (precedence, specificity) (lemmas: total, transitive, reflexive, so later declarations win ties); at both insertion sites of newStyleFor the stored weight is (declarationPrecedence(origin, important), specificity) and a slot is replaced only when empty or when the new weight is >= the old one; evaluateMediaQuery matches `all` or the device type; presentational hints get specificity (0,0,0); matcher.match reports EVERY matching selector of every rule with its own specificity, pseudo-element and declarations (completeness proved with nested loop invariants); GetAllComputedStyles passes newStyleFor a sheet list in which only user-agent sheets precede the presentational-hint sheet, so hints come before every author sheet in order of appearance (findStylesheets trusted for its frame). The clause 'a style attribute outranks every selector' FAILS on the real code and is recorded as a known finding (style attributes get (1,0,0)). Selector matching (C05), @import/nested rules and addPageDeclarations are NOT under contract.",
   note="known finding recorded in known_findings.txt; newStyleFor/findStyleAttributes are checked only at the listed call/map-update sites (their other obligations are unclaimed: havoc abstraction of maps, iterators and unknown callees); machine-int-as-math",
   ref="DESIGN.md §4 C03")

CLAIMED["C18"] = dict(
   text="The SVG path-data interpreter is under contract and proved for all argument lists: every command method of pathParser (moveTo/lineTo incl. implicit repetition, H/V, C/S/Q/T with smooth reflection, closepath, arcs) appends exactly the segments SVG 1.1 §8.3 defines, absolute vs relative, with the current point / sub-path start / last control point bookkeeping as representation invariants across argument groups; quadraticToCubic is degree elevation (Bezier identity lemma for all t); reflection is point reflection; an arc segment ends at the given end point and successive arc groups start where the previous one ended; consumeNumber/parsePoints accept the SVG number grammar without panicking and always make progress; the control point remembered after Q and C is the last one drawn; findEllipseCenter scales too-small radii up keeping their ratio and never shrinks them; a gradient/pattern href is consumed before the referenced element is processed, and svg.Parse returns on every href graph over three definitions (BOUNDED enumeration, 125 graphs incl. cycles). Basic-shape outlines, viewBox/preserveAspectRatio mapping and reference-cycle handling are NOT under contract; the arc's 'lies on the given ellipse' clause is decided only for the end points (centre parameterisation uses sqrt/atan2, uninterpreted).",
   note="float-as-real; strconv.ParseFloat, math.Sqrt/Atan2/Sin/Cos assumed (extern/uninterpreted); drawing back end calls are not under contract (the proved object is the segment list the parser builds); machine-int-as-math",
   ref="DESIGN.md §4 C18")

CLAIMED["C07"] = dict(
   text="Absence of panics and termination are proved, for all inputs, for the parsers that are under contract as `nopanic` with loop/recursion measures: the whole CSS tokenizer and rule/declaration parsers (css/parser tokenizer.go, parser.go: shared with C06), the <An+B> parser (nth.go), the complete selector parser (css/selector/parser.go: every method of the hand-written recursive-descent parser incl. escapes, strings, attribute operators, pseudo-class arguments, nth), @page selector parsing (tree.parsePageSelectors, one defect found and fixed), the SVG number / point-list / path-data / opacity / url / viewBox / preserveAspectRatio parsers (one defect found and fixed), data: URI splitting (parseDataURL, isHex, unhex), the HTML integer attribute reader, getKeyword/getLength/getAngle, ParseFunction, and the counter-style symbol algorithms. Property validators and shorthand expanders (css/validation), descriptor parsers, colour parsing, utils/urls.go data: handling and the HTML attribute readers are NOT under contract yet and are not decided by this check.",
   note="assumed: extern contracts of strconv/strings/bytes/utf8/regexp in contracts/extern.spec; token well-formedness of caller-supplied token slices (no nil token, identifiers/numbers with non-empty text) is a precondition of ParseNth/parsePageSelectors, established by the tokenizer but not proved through Compound values; one waived index obligation in matchInt (regexp capture-group count); machine-int-as-math; stack depth of recursion not modelled",
   ref="DESIGN.md §4 C07")

CLAIMED["C05"] = dict(
   text="Decided by proof for the parts of the selector engine that are under contract: specificity of every selector kind (tag (0,0,1), class/attribute/pseudo-class (0,1,0), id (1,0,0), never-match 0; a complex selector adds both sides; :is/:not/:has take the lexicographic maximum of their arguments (upper bound and attained, any number of arguments); a compound selector sums its parts plus (0,0,1) for a pseudo-element, exact for up to three simple selectors), the attribute operators ^= $= *= ~= with an empty value match nothing (defect found and fixed) and ~= with a value containing white space matches nothing, |= is 'equal or followed by -', the an+b test of :nth-*() is sound and complete for every a != 0 incl. negative steps (exists k >= 0 with a*k + b = index), asciiSet.index finds the first member, the matchers' sibling walks are memory safe; structure of matching: a compound selector matches iff every part does, a selector list iff some selector does, child combinator = right side on the element and left side on its parent, the complex-selector and :is/:not/:has dispatch binds each combinator / name to its matcher, :root and type selectors as defined, every word of ~= compared under the same case rule. The :nth-* sibling index is checked by an exhaustive BOUNDED enumeration (child lists <= 4), labelled bounded. Tree-relative matching (combinators over the DOM, sibling counting, :empty, :has), :nth index computation from the sibling list, serialisation round trip and case-insensitive matching are NOT under contract.",
   note="Sel.Specificity assumed a pure function of the (immutable) selector value with non-negative components (re-proved for every implementation in the package); asciiSet.contains uninterpreted (bit operations); strings.HasPrefix/HasSuffix/Contains/EqualFold/TrimSpace assumed (extern); matching against html.Node trees is not modelled; machine-int-as-math",
   ref="DESIGN.md §4 C05")

CLAIMED["C04"] = dict(
   text="The defaulting step and the unit kernels are under contract and proved: (*ComputedStyle).cascadeValue returns the cascaded value if there is one, else inherit for inherited and custom properties and initial otherwise; inherit on the root element means initial (also when it comes from a substituted variable, and an invalid pending inherited value on the root falls back to the initial value: two nil-parent defects found and fixed); initial yields pr.InitialValues[prop] and inherit the parent's Get(prop); the function does not dereference a nil parent on any path. length_ converts absolute units with exactly the CSS ratios (1in = 96px = 72pt = 6pc = 2.54cm = 25.4mm = 101.6q; the ratios are read from the init literal of pr.LengthsToPixels on every run), em against the given font size, and returns keywords, percentages and px unchanged. fontWeight maps normal/bold and steps bolder/lighter through the CSS table from the parent's weight, or from the initial weight on the root (defect found and fixed; tables read from the init literal). NOT under contract: the lazy Get/compute pipeline around these kernels (caching order), ex/ch/rem (need font metrics), fontSize keywords, the other ~40 computer functions, pseudo-elements and anonymous boxes (AnonymousStyle.Get).",
   note="ElementStyle.Get*/Properties.GetFontWeight assumed pure (read-only styles); unknown callees (resolveVar, validators, logger) havoc the heap and their panic-freedom is waived here (C07/C08); float-as-real with float32 table constants de-rounded to their defining fractions; constant tables assumed not mutated after init (no write found in the loaded program); initial font-weight = 400 checked natively (bounded, one case)",
   ref="DESIGN.md §4 C04")

CLAIMED["C08"] = dict(
   text="Spelling-insensitivity and shorthand kernels are under contract and proved: getKeyword / getSingleKeyword return the ASCII-lower-cased identifier; getLength accepts each of the 11 length units under any ASCII case with the value unchanged (unit table read from its init literal), rejects unknown units, negative values where not allowed and non-zero bare numbers, and handles percentages as specified; getAngle recognises its 4 units case-insensitively (defect found and fixed: units were matched case-sensitively, also for resolution and fr); ParseFunction lower-cases function names; RemoveWhitespace drops only white space and comments; expandFourSides hands the 1-4 value tokens to the four longhands exactly as CSS 2.1 §8.3 assigns them (call-site assertions for every arity). var() substitution (resolveVar: termination on every reference graph incl. cycles, no var() left, equality with textual substitution when acyclic) is decided only by an exhaustive BOUNDED enumeration (3 variables x 13 value forms; two fatal-recursion defects found and fixed), labelled bounded and not counted as proved. NOT under contract: the other shorthand expanders, the ~200 property validators, 'an invalid declaration is dropped alone' (PreprocessDeclarations), invalid-at-computed-value-time beyond what C04 cascadeValue states.",
   note="utils.AsciiLower is a pure function of its argument (proved panic-free and length-preserving on emptiness; its case mapping itself is not specified); validateNonShorthand trusted to leave its inputs unchanged; KnownProp.String/Shortand.String trusted table reads; tokens assumed non-nil in token lists (waived preconditions); float-as-real",
   ref="DESIGN.md §4 C08")

CLAIMED["C13"] = dict(
   text="Width clauses of the table property are under contract and proved for all inputs: fixedTableLayout ends with table.Width == sum(table.ColumnWidths) + border-spacing*(columns+1) whenever the table has a column — 'the columns plus spacing exactly fill the table's used width' — by loop invariants over the mathematical sum of a slice (the excess is shared equally, or the table is widened to its columns), and the layout helper sum() returns that sum; autoTableLayout leaves the used width >= the table's minimum content width on every path (auto and specified widths, excess reduction). When the automatic layout has to 'break the rules' the undistributed excess is shared equally among the columns that have cells (share x number of receivers == excess); distributeExcessWidth never divides by a zero percentage total. 'No two cells on the same grid slot' FAILS on the real code (wrapTable checks only the first slot: recorded as a known finding with its input). NOT under contract: shared column edges and row heights, rowspan resolution, border-spacing positions (tableLayout), the column width distribution of the automatic layout (sum of the distributed widths), non-negative sizes.",
   note="float-as-real; the sum of a slice is an uninterpreted function whose defining equations are instantiated per occurrence (engine/sumtheory.go); MaybeFloat.V dispatch assumed; tableAndColumnsPreferredWidths trusted to return min-content <= max-content; distributeExcessWidth trusted to write only the column widths; loops havoc the whole heap (modifies anything) and the invariants restate what is needed",
   ref="DESIGN.md §4 C13")

CLAIMED["C14"] = dict(
   text="The link / anchor / bookmark clauses are under contract and proved: makeBookmarkTree keeps, for every sequence of bookmark levels >= 1, the invariant (open depths) + (skipped levels) == level of the previous bookmark (sum over the stack), under which its internal consistency panic can never fire, the stack is never popped when empty, the parent list of each new node exists, and all four loops terminate — bookmark entries form an outline consistent with their levels and carry the page index of the page being visited; gatherLinksAndBookmarks writes an anchor only for a non-empty name not yet defined on the page (first element with that id wins) and records a bookmark only with a label and a non-zero level; resolveLinks emits each anchor name once (first defining page) and keeps an internal link only if its target is a defined anchor (links to missing anchors are dropped), external links unchanged; rectangleAabb returns the axis-aligned bounding box of the four transformed corners; Mins/Maxs return the least/greatest element. NOT under contract: the backend call sequence (one AddPage per page, path-before-paint, fonts before text), finiteness of the numbers passed, metadata forwarding, 'bookmarks point to existing pages' beyond the page index being the loop index.",
   note="bookmark levels >= 1 is a precondition (established by the bookmark-level validator and the level != 0 test, not proved through the box tree); HitArea / IsAttachment / Rectangle.Unpack trusted frame-only; getMatrix preconditions waived at the call (C17); map iteration order of page.anchors is abstracted (any order); float-as-real",
   ref="DESIGN.md §4 C14")

CLAIMED["C01"] = dict(
   text="PARTIAL by construction: 'rendering any document terminates without crashing' is a whole-program property; what is decided here is panic-freedom and termination, for all inputs, of the components that are under contract as nopanic with loop/recursion measures and that every rendering goes through: the CSS tokenizer and rule parsers, the selector parser, the SVG path/number parsers, the counter-style algorithms, the bookmark outline builder (its internal consistency panic is unreachable), plus: NewHTML always returns an element node as document root or an error (defect found and fixed: a comment before <html> became the root), and var() substitution terminates on every custom-property graph (bounded enumeration; two fatal stack-overflow defects found and fixed); svg gradient/pattern href graphs and counter-style fallback/extends graphs terminate (bounded enumerations); in box building, UpdateCounters leaves every counter it resets, sets or increments with an innermost instance (the non-empty value stack the scope pops rely on). The recursive layout engine (blocks, inlines, tables, flex, grid, pagination loops), the rest of box building, drawing and the text back end are NOT under contract: their termination and panic-freedom are not decided by this check.",
   note="everything listed under C06, C07, C14, C18, C19 applies; stack depth of recursion is not modelled; machine-int-as-math; unknown callees are assumed to return",
   ref="DESIGN.md §4 C01")

NOT_YET = {}

NA = {
 "C02": "conservation of content across line and page breaking relates the multiset of text laid out to the text drawn over a whole rendering (a trace / multiset property over the recursive layout engine and the drawing pass); the functions that would carry it (splitInlineBox, blockContainerLayout, makePage, drawText) are mutually recursive over the box tree with resume-at stacks and are outside the subset the VC generator handles precisely (interface-typed box trees copied at every step). No kernel of it could be isolated as a postcondition of one call; no bounded stand-in was built either (the text engine needs a font cache that is absent from this sandbox). See DESIGN.md §5",
 "C09": "well-formedness of the box tree is a recursive predicate over interface-typed trees built by mutually recursive rewriting passes (inlineInBlock, blockInInline, wrapImproper, table wrapping); the contract language has no recursive predicates over heap trees, so the structural clauses cannot be stated as postconditions. The one clause that could be stated locally — no two cells on the same grid slot — is under contract in wrapTable and FAILS on the real code: it is reported as a known finding by the C13 check (known_findings.txt, property=C09 and C13). See DESIGN.md §5",
 "C16": "painting order is a property of the ORDER of backend calls within one drawStackingContext activation (and of the recursive activations it triggers): a trace property. Contracts on single calls cannot say 'A is painted before B' without ghost trace state, which the engine does not have; the phases live in nested closures whose captured variables are havocked by the recursive drawing calls. The classification kernel (NewStackingContext: children split by the sign of z-index, stable sort) was put under contract but its obligations did not discharge stably within the quick timeout (whole-struct slice elements, three aliasing lists), so it was removed rather than claimed. See DESIGN.md §5",
 "C15": "determinism / non-interference quantifies over goroutine schedules and pairs of runs (2-safety, data races): no pre/postcondition on one call can state it; see DESIGN.md §5",
}

def main():
    here = os.path.dirname(os.path.dirname(os.path.abspath(__file__)))
    props = [json.loads(l)["id"] for l in open(os.path.join(here, "properties.jsonl"))]
    try:
        commits = subprocess.run(["git","-C","/repo","log","--format=%H %s"],capture_output=True,text=True).stdout.splitlines()
    except Exception:
        commits = []
    hook_commits = [c.split()[0] for c in commits if c.split(" ",1)[1].startswith("verif:")]
    checks = []
    for p in props:
        if p in CLAIMED:
            c = CLAIMED[p]
            checks.append({
                "property_id": p,
                "quick_cmd": f"./check {p} quick",
                "thorough_cmd": f"./check {p} thorough",
                "evidence_file": f"/verif/evidence/{p}.json",
                "replay_cmd_template": "./check --replay {path}",
                "engine": "gowp",
                "level_claimed": {"category": "proof", "text": c["text"], "design_ref": c["ref"]},
                "level_note": c["note"],
                "technique": "contract-based deductive verification: weakest-precondition VCs over go/ssa of the real functions, contracts in //go:build verif files, discharged by z3/z3-new/cvc5",
            })
    na = []
    for p in props:
        if p in CLAIMED: continue
        if p in NA: na.append({"property_id": p, "reason": NA[p]})
        else: na.append({"property_id": p, "reason": NOT_YET.get(p, "no function this property depends on is under contract yet in this build round (planned: DESIGN.md §4); not claimed rather than claimed on nothing")})
    m = {
        "version": 1,
        "setup_cmd": "cd /verif/engine && GOFLAGS=-mod=vendor GOPROXY=off GOTOOLCHAIN=local go build -o ../bin/gowp ./cmd/gowp",
        "hooks": {
            "guard": "verif",
            "enable": "go build -tags verif (contracts live in <pkg>/zz_verif_contracts.go files carrying //go:build verif; they contain //@ contract comments and pure ghost helper functions only)",
            "baseline_off_cmd": "/verif/tools/baseline.sh /repo",
            "source_commits": hook_commits,
            "add_only": True,
        },
        "engines": [{"name": "gowp", "path": "/verif/engine", "serves_properties": sorted(CLAIMED), "kind_free_text": "self-written verification-condition generator for Go (go/packages + go/ssa naive form, vendored x/tools v0.29.0) with an SMT portfolio (z3 4.8.12, z3 5.1.0, cvc5 1.0)"}],
        "checks": checks,
        "not_applicable": na,
        "notes": "One technique only: contracts on the real functions of /repo, VCs generated from the working tree on every run. See DESIGN.md.",
    }
    json.dump(m, open(os.path.join(here, "MANIFEST.json"), "w"), indent=1)
    print("wrote MANIFEST.json:", len(checks), "claimed,", len(na), "not applicable")

if __name__ == "__main__":
    main()
