#!/bin/bash
# Runs the repository's baseline suite with the verif guard OFF and compares the
# set of passing tests with /root/.vp/BASELINE.json (263 stable tests).
export GOFLAGS=-mod=mod GOPROXY=off GOSUMDB=off GOTOOLCHAIN=local
REPO="${1:-/repo}"
OUT=$(mktemp)
(cd "$REPO" && go test -mod=mod -json -vet=off -count=1 -timeout 25m ./... 2>/dev/null) > "$OUT"
python3 - "$OUT" <<'PY'
import json,sys
passed=set()
for l in open(sys.argv[1]):
    try: e=json.loads(l)
    except Exception: continue
    if e.get('Action')=='pass' and e.get('Test'):
        passed.add(e['Package']+'::'+e['Test'])
base=set(json.load(open('/root/.vp/BASELINE.json'))['stable_pass'])
missing=sorted(base-passed)
print(f"baseline tests: {len(base)}  passing now: {len(base&passed)}  missing: {len(missing)}")
for m in missing[:20]: print("  MISSING", m)
sys.exit(1 if missing else 0)
PY
rc=$?
rm -f "$OUT"
exit $rc
