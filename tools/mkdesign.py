#!/usr/bin/env python3
"""Refreshes the generated parts of DESIGN.md: the per-property paragraphs of section 4 (from MANIFEST.json and the
evidence files of the last run) and the table of bounded enumerators of section 3.6 (from the evidence files)."""
import json, re, glob, os

d = open('/verif/DESIGN.md').read()
m = json.load(open('/verif/MANIFEST.json'))
texts = {c['property_id']: (c['level_claimed']['text'], c.get('level_note', '')) for c in m['checks']}
ev = {}
for f in sorted(glob.glob('/verif/evidence/C*.json')):
    e = json.load(open(f))
    ev[e['property_id']] = e

# section 4
start = d.index("## 4. Per-property status")
end = d.index("## 5. Not applicable")
sec = d[start:end]
heads = list(re.finditer(r'^### (C\d\d) ([^\n]*?)\(([^)\n]*)\)\n', sec, re.M))
out = sec[:heads[0].start()]
for i, h in enumerate(heads):
    pid = h.group(1)
    if pid not in texts:
        continue
    t, note = texts[pid]
    e = ev.get(pid)
    inner = h.group(3)
    if e:
        n = e['coverage']['obligations']
        nb = len(e['coverage'].get('bounded') or [])
        kf = len(e['coverage'].get('known_findings') or [])
        inner = format(n, ',').replace(',', ' ')
        if nb:
            inner += " + %d bounded" % nb
        if kf:
            inner += ", %d known finding%s" % (kf, 's' if kf > 1 else '')
    muts = glob.glob('/verif/selftest/mutants/%s-*.diff' % pid)
    seeds = glob.glob('/verif/seeded/%s-s*/patch.diff' % pid)
    out += "### %s %s(%s)\n" % (pid, h.group(2), inner) + t + "\n\nAssumed: " + note + \
        "\n\nMust-fail corpus: %d mutants (`selftest/mutants/%s-*`), %d seeded changes (`seeded/%s-s*`).\n\n" % (len(muts), pid, len(seeds), pid)
d = d[:start] + out + d[end:]

# section 3.6 table
i = d.index("Bounded stand-ins (labelled, never counted as proved")
j = d.index("### 3.7 Evidence")
items = {}
for pid, e in ev.items():
    for b in (e['coverage'].get('bounded') or []):
        items.setdefault(b['name'], {'cases': b['cases'], 'bound': b['bound'], 'props': []})['props'].append(pid)
txt = ("Bounded stand-ins (labelled, never counted as proved; %d of them; the table is generated from the evidence files of the last run —\n"
       "name, cases enumerated, what is enumerated, properties served):\n\n| enumerator | cases | bound | serves |\n|---|---|---|---|\n") % len(items)
for n in sorted(items):
    it = items[n]
    txt += "| `%s` | %s | %s | %s |\n" % (n, format(it['cases'], ',').replace(',', ' '), it['bound'].replace('|', '/'), ' '.join(it['props']))
txt += "\n"
d = d[:i] + txt + d[j:]
open('/verif/DESIGN.md', 'w').write(d)
print("DESIGN.md: %d property paragraphs, %d bounded enumerators" % (len(heads), len(items)))
