#!/bin/bash
# Must-fail corpus: applies each mutant of /verif/selftest/mutants to /repo, runs the
# check of the property it breaks, expects a VIOLATION, and restores /repo.
# usage: tools/selftest.sh [name-substring] [--tests]   (--tests: also confirm the baseline suite stays green)
cd "$(dirname "$0")/.."
export GOFLAGS=-mod=mod GOPROXY=off GOSUMDB=off GOTOOLCHAIN=local
FILTER="${1:-}"; TESTS=0; [ "${2:-}" = "--tests" ] && TESTS=1
if [ -n "$(git -C /repo status --porcelain --untracked-files=no)" ]; then echo "selftest: /repo has uncommitted changes; refusing"; exit 2; fi
pass=0; fail=0; failed=()
# mutant runs rewrite evidence/*.json: keep the evidence of the unchanged tree
EVBAK=$(mktemp -d); cp -a evidence/. "$EVBAK"/ 2>/dev/null
restore_ev() { cp -a "$EVBAK"/. evidence/ 2>/dev/null; rm -rf "$EVBAK"; }
trap restore_ev EXIT
for d in selftest/mutants/*.diff seeded/*/patch.diff; do
  case "$d" in
    seeded/*) n=$(basename "$(dirname "$d")"); prop=$(python3 -c "import json,sys;print(json.load(open(sys.argv[1]))['property'])" "$(dirname "$d")/meta.json");;
    *) n=$(basename "$d" .diff); prop=$(cat "selftest/mutants/$n.prop");;
  esac
  case "$n" in *"$FILTER"*) ;; *) continue;; esac
  if ! git -C /repo apply "$PWD/$d" 2>/dev/null; then echo "SKIP $n (patch does not apply)"; fail=$((fail+1)); failed+=("$n(apply)"); continue; fi
  if [ $TESTS = 1 ]; then
    if ! tools/baseline.sh /repo >/tmp/selftest_base.txt 2>&1; then echo "NOTE $n: baseline tests catch this mutant: $(head -1 /tmp/selftest_base.txt)"; fi
  fi
  out=$(./bin/gowp -props "$prop" -tier quick -noreplay 2>&1); rc=$?
  git -C /repo checkout -- . 
  if [ $rc = 1 ] && echo "$out" | grep -q "^VIOLATION property=$prop"; then
    pass=$((pass+1)); echo "ok   $n -> $(echo "$out" | grep -c '^VIOLATION') violation(s): $(echo "$out" | grep '^VIOLATION' | head -2 | sed 's/.*replays\/[A-Z0-9]*\///; s/ no-failing.*//' | tr '\n' ' ')"
  else
    fail=$((fail+1)); failed+=("$n"); echo "MISS $n (exit $rc)"; echo "$out" | tail -3
  fi
done
echo "selftest: $pass mutants detected, $fail missed ${failed[*]}"
# the checks must still pass on the restored tree
[ $fail = 0 ]
