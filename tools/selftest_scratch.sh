#!/bin/bash
# Must-fail corpus on scratch copies of /repo's working tree (never touches /repo or the evidence):
# usage: tools/selftest_scratch.sh [name-substring]
cd "$(dirname "$0")/.."
export GOFLAGS=-mod=mod GOPROXY=off GOSUMDB=off GOTOOLCHAIN=local
FILTER="${1:-}"
SCR=$(mktemp -d "${TMPDIR:-/tmp}/verif-selftest-XXXXXX"); trap 'rm -rf "$SCR"' EXIT
det=0; miss=0; skip=0
for d in selftest/mutants/*.diff seeded/*/patch.diff; do
  case "$d" in
    seeded/*) n=$(basename "$(dirname "$d")"); prop=$(python3 -c "import json,sys;print(json.load(open(sys.argv[1]))['property'])" "$(dirname "$d")/meta.json");;
    *) n=$(basename "$d" .diff); prop=$(cat "selftest/mutants/$n.prop");;
  esac
  case "$n" in *"$FILTER"*) ;; *) continue;; esac
  rm -rf "$SCR/repo"; mkdir -p "$SCR/repo"
  (cd /repo && git ls-files -z | xargs -0 cp --parents -t "$SCR/repo" 2>/dev/null)
  if ! (cd "$SCR/repo" && git init -q . 2>/dev/null && git apply "$OLDPWD/$d" 2>/dev/null); then skip=$((skip+1)); echo "SKIP $n (patch does not apply)"; continue; fi
  out=$(bin/gowp -repo "$SCR/repo" -props "$prop" -tier quick -lock off -noevidence 2>&1)
  if echo "$out" | grep -q "^VIOLATION property=$prop"; then det=$((det+1)); echo "ok   $n"; else miss=$((miss+1)); echo "MISS $n"; echo "$out" | tail -2; fi
done
echo "selftest(scratch): $det detected, $miss missed, $skip skipped"
[ $miss = 0 ]
