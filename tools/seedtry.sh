#!/bin/bash
# tools/seedtry.sh <PROP> <seed-id>   e.g. seedtry.sh C03 C03-s3
# confirms the agent's deliverables in /tmp/seed-out-<PROP>, stores them as seeded/<seed-id>, removes the
# agent's worktree, and runs the property's check against the change on a scratch copy.
cd "$(dirname "$0")/.."
P="$1"; ID="$2"
tools/seedconfirm.sh "$ID" "/tmp/seed-out-$P" 2>&1 | tail -1
git -C /repo worktree remove --force "/tmp/wt-$P" 2>/dev/null; rm -rf "/tmp/wt-$P"
[ -f "seeded/$ID/patch.diff" ] || exit 1
SCR=$(mktemp -d /tmp/seedtry-XXXX); trap 'rm -rf "$SCR"' EXIT
mkdir -p "$SCR/repo"; (cd /repo && git ls-files -z | xargs -0 cp --parents -t "$SCR/repo")
(cd "$SCR/repo" && git init -q . && git apply "/verif/seeded/$ID/patch.diff") || { echo "patch does not apply"; exit 1; }
export GOFLAGS=-mod=mod GOPROXY=off GOSUMDB=off GOTOOLCHAIN=local
bin/gowp -repo "$SCR/repo" -props "$P" -tier quick -lock off -noevidence 2>&1 | grep -v "^  ok\|KNOWN" | tail -4 | cut -c1-260
