#!/bin/bash
# Confirms a seeded change independently: usage: seedconfirm.sh <seed-id> <outdir-of-agent> 
# In a scratch worktree of /repo HEAD (removed afterwards): patch applies, builds, baseline suite green,
# demo fails with the patch and passes without it. Copies the artefacts to /verif/seeded/<seed-id>/.
set -u
ID="$1"; OUT="$2"
export GOFLAGS=-mod=mod GOPROXY=off GOSUMDB=off GOTOOLCHAIN=local
WT=$(mktemp -d /tmp/sc-XXXX); rmdir $WT
git -C /repo worktree add -q --detach $WT HEAD || exit 2
cleanup() { git -C /repo worktree remove --force $WT 2>/dev/null; rm -rf $WT; }
trap cleanup EXIT
DEMO=$(ls $OUT/*_test.go | head -1)
PKG=$(python3 -c "import json;print(json.load(open('$OUT/meta.json'))['demo_pkg_dir'])")
cd $WT
git apply $OUT/patch.diff || { echo "RESULT $ID: patch does not apply"; exit 1; }
go build ./... || { echo "RESULT $ID: does not build"; exit 1; }
/verif/tools/baseline.sh $WT > /tmp/sc-base.txt 2>&1; BASE=$?
head -1 /tmp/sc-base.txt
rundemo() {
  mkdir -p /tmp/sc-aside; 
  case "$PKG" in html/layout|html/document|text) mv $WT/$PKG/*_test.go /tmp/sc-aside/ 2>/dev/null;; esac
  cp $DEMO $WT/$PKG/zz_seed_demo_test.go
  (cd $WT && timeout 300 go test -count=1 -vet=off -timeout 120s -run 'Seed' ./$PKG/ 2>&1 | tail -15); rc=${PIPESTATUS[0]}
  rm -f $WT/$PKG/zz_seed_demo_test.go
  case "$PKG" in html/layout|html/document|text) mv /tmp/sc-aside/*_test.go $WT/$PKG/ 2>/dev/null;; esac
  return 0
}
W=$(rundemo); echo "--- demo WITH patch:"; echo "$W" | tail -6
git checkout -q -- . 
N=$(rundemo); echo "--- demo WITHOUT patch:"; echo "$N" | tail -3
okW=0; echo "$W" | grep -q "^FAIL\|--- FAIL\|panic:" && okW=1
okN=0; echo "$N" | grep -q "^ok" && okN=1
if [ $BASE = 0 ] && [ $okW = 1 ] && [ $okN = 1 ]; then
  mkdir -p /verif/seeded/$ID && cp $OUT/patch.diff $OUT/meta.json $DEMO /verif/seeded/$ID/
  echo "RESULT $ID: CONFIRMED (baseline green, demo fails with patch, passes without)"
else
  echo "RESULT $ID: NOT confirmed (baseline=$BASE demoFailsWith=$okW demoPassesWithout=$okN)"
fi
