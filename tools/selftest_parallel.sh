#!/bin/bash
# Must-fail corpus on scratch copies of /repo's working tree, several items at a time
# (never touches /repo or the evidence):   tools/selftest_parallel.sh [workers] [name-substring]
# SELFTEST_LIST=<file with one diff path per line> restricts the run to those items.
cd "$(dirname "$0")/.."
export GOFLAGS=-mod=mod GOPROXY=off GOSUMDB=off GOTOOLCHAIN=local
W="${1:-4}"; FILTER="${2:-}"
one() {
  d="$1"
  case "$d" in
    seeded/*) n=$(basename "$(dirname "$d")"); prop=$(python3 -c "import json,sys;print(json.load(open(sys.argv[1]))['property'])" "$(dirname "$d")/meta.json");;
    *) n=$(basename "$d" .diff); prop=$(cat "selftest/mutants/$n.prop");;
  esac
  SCR=$(mktemp -d "${TMPDIR:-/tmp}/verif-selftest-XXXXXX")
  mkdir -p "$SCR/repo"
  (cd /repo && git ls-files -z | xargs -0 cp --parents -t "$SCR/repo" 2>/dev/null)
  if ! (cd "$SCR/repo" && git init -q . 2>/dev/null && git apply "$OLDPWD/$d" 2>/dev/null); then echo "SKIP $n (patch does not apply)"; rm -rf "$SCR"; return; fi
  out=$(bin/gowp -repo "$SCR/repo" -props "$prop" -tier quick -lock off -noevidence 2>&1)
  if echo "$out" | grep -q "^VIOLATION property=$prop"; then echo "ok   $n"; else echo "MISS $n"; echo "$out" | tail -2 | sed 's/^/     /'; fi
  rm -rf "$SCR"
}
export -f one
(if [ -n "$SELFTEST_LIST" ]; then cat "$SELFTEST_LIST"; else ls selftest/mutants/*.diff seeded/*/patch.diff | grep -- "$FILTER"; fi) | xargs -P "$W" -I{} bash -c 'one {}' | tee /tmp/selftest-parallel.out
det=$(grep -c "^ok " /tmp/selftest-parallel.out); miss=$(grep -c "^MISS" /tmp/selftest-parallel.out); skip=$(grep -c "^SKIP" /tmp/selftest-parallel.out)
echo "selftest(parallel): $det detected, $miss missed, $skip skipped"
[ "$miss" = 0 ]
